"""RNG tracing for property C08 (randomness discipline).

Nothing in /repo is edited: the harness monkey-patches, from outside,
  * the sources of randomness  np.random.{seed,normal,uniform,poisson,random_sample,random,choice,...}
    and random.{seed,getrandbits,random,...}  with logging wrappers (the original function is still
    called, so the variates are the real ones),
  * the name `deque` in rpylib.process.levyprocess by a deque subclass that tags every pre-drawn row
    with (creation number of the deque, row number) and logs each popleft,
  * class-level wrappers around the public `simulate_one_path*` entry points and `*Statistics.add`
    that only log sample boundaries / the sample index and value stored,
  * pathos' Pool.map_async (only to log, inside the worker, which iteration index a task received).

Events are plain dicts.  In the parent they go to `TR.events`; in worker processes (forked children)
they are appended, one JSON line each, to  <logdir>/w_<pid>.jsonl  and read back by `collect_workers`.

Abstract positions.  A variate is identified by (stream, seed_id, index): stream 0 = numpy's global
generator, stream 1 = Python's `random`; `seed_id` is the argument of the last seed call (or the
ambient id of the process before any seed call of the run); `index` counts the variates requested
from that stream since that seed call.  `positions()` turns a log into the per-sample position lists
the Coq model (Model/Rng.v) predicts.
"""
from __future__ import annotations

import collections
import hashlib
import json
import os
import random as pyrandom
from pathlib import Path

import numpy as np

AMBIENT = -1          # seed id of the generator state the run inherits
NP, PY = 0, 1


def _np_hash():
    st = np.random.get_state()
    h = hashlib.sha1(st[1].tobytes())
    h.update(repr((st[2], st[3], st[4])).encode())
    return h.hexdigest()[:16]


def _py_hash():
    return hashlib.sha1(repr(pyrandom.getstate()).encode()).hexdigest()[:16]


def seed_id(seed):
    """the seed id of the model: an int seeds as itself, a pair [a, b] (np.random.seed([pid, now])) as a * 2**32 + b"""
    if seed is None:
        return None
    if isinstance(seed, (list, tuple, np.ndarray)):
        out = 0
        for v in list(seed):
            out = out * 2 ** 32 + int(v)
        return out
    return int(seed)


class Tracer:
    def __init__(self):
        self.events: list[dict] = []
        self.active = False
        self.parent_pid = os.getpid()
        self.logdir: Path | None = None
        self.installed = False
        self.deque_counter = 0
        self.depth = 0
        self.pool_seq = 0
        self.cop_dec = 0
        self._orig = {}
        self._wfile = None
        self._wpid = None

    # ------------------------------------------------------------------ logging
    def log(self, **ev):
        if not self.active:
            return
        pid = os.getpid()
        if pid == self.parent_pid:
            self.events.append(ev)
        else:
            if self._wpid != pid:
                self._wpid = pid
                self._wfile = open(self.logdir / f"w_{pid}.jsonl", "a")
                self._wseq = 0
            ev["pid"] = pid
            self._wfile.write(json.dumps(ev) + "\n")
            self._wfile.flush()

    def start(self, logdir: Path | None = None):
        self.events = []
        self.deque_counter = 0
        self.depth = 0
        self.pool_seq = 0
        self.parent_pid = os.getpid()
        self.logdir = logdir
        if logdir is not None:
            logdir.mkdir(parents=True, exist_ok=True)
            for f in logdir.glob("w_*.jsonl"):
                f.unlink()
        self.active = True

    def stop(self):
        self.active = False
        return self.events

    def collect_workers(self) -> dict[int, list[dict]]:
        out = {}
        if self.logdir is None:
            return out
        for f in sorted(self.logdir.glob("w_*.jsonl")):
            evs = [json.loads(ln) for ln in f.read_text().splitlines() if ln.strip()]
            if evs:
                out[evs[0]["pid"]] = evs
        return out

    # ------------------------------------------------------------------ installation
    def install(self):
        if self.installed:
            return
        self.installed = True
        tr = self

        def size_of(res, size):
            return int(np.size(res))

        def wrap_np(name):
            orig = getattr(np.random, name)
            self._orig[("np", name)] = orig

            def wrapper(*a, **kw):
                if not tr.active:
                    return orig(*a, **kw)
                hb = _np_hash()
                res = orig(*a, **kw)
                shape = list(np.shape(res))
                tr.log(e="draw", st=NP, op=name, k=int(np.size(res)), shape=shape, hb=hb, ha=_np_hash(),
                       vals=(np.ravel(np.asarray(res, dtype=float)).tolist() if np.size(res) <= 4096 else None))
                return res
            wrapper.__name__ = name
            setattr(np.random, name, wrapper)

        for name in ("normal", "uniform", "poisson", "random_sample", "random", "standard_normal", "rand", "randn",
                     "choice", "exponential", "gamma", "randint", "binomial", "beta", "standard_exponential",
                     "ranf", "sample", "permutation", "shuffle", "multivariate_normal", "standard_gamma"):
            if hasattr(np.random, name):
                wrap_np(name)

        orig_seed = np.random.seed
        self._orig[("np", "seed")] = orig_seed

        def np_seed(seed=None):
            if not tr.active:
                return orig_seed(seed)
            hb = _np_hash()
            orig_seed(seed)
            tr.log(e="seed", st=NP, s=seed_id(seed), hb=hb, ha=_np_hash())
        np.random.seed = np_seed

        orig_default_rng = np.random.default_rng
        self._orig[("np", "default_rng")] = orig_default_rng

        def default_rng(seed=None):
            if tr.active:
                tr.log(e="default_rng", s=seed_id(seed))
            return orig_default_rng(seed)
        np.random.default_rng = default_rng

        def wrap_py(name, kfun):
            orig = getattr(pyrandom, name)
            self._orig[("py", name)] = orig

            def wrapper(*a, **kw):
                if not tr.active:
                    return orig(*a, **kw)
                hb = _py_hash()
                res = orig(*a, **kw)
                tr.log(e="draw", st=PY, op=name, k=1, shape=[], hb=hb, ha=_py_hash(), vals=[float(res)])
                return res
            wrapper.__name__ = name
            setattr(pyrandom, name, wrapper)

        for name in ("getrandbits", "random", "uniform", "randrange", "randint", "gauss", "normalvariate"):
            wrap_py(name, None)
        orig_pyseed = pyrandom.seed
        self._orig[("py", "seed")] = orig_pyseed

        def py_seed(a=None, version=2):
            if not tr.active:
                return orig_pyseed(a, version)
            hb = _py_hash()
            orig_pyseed(a, version)
            tr.log(e="seed", st=PY, s=seed_id(a), hb=hb, ha=_py_hash())
        pyrandom.seed = py_seed

        # ---- pre-drawn rows: tagging deque
        import rpylib.process.levyprocess as LP
        LP.deque = TracingDeque

        # ---- sample boundaries (logging only)
        from rpylib.process.levyprocess import LevyProcess
        from rpylib.process.coupling.couplingmarkovchain import CouplingMarkovChain

        def wrap_sample(cls, name):
            orig = getattr(cls, name)
            self._orig[(cls.__name__, name)] = orig

            def wrapper(self_, *a, **kw):
                if not tr.active:
                    return orig(self_, *a, **kw)
                outer = tr.depth == 0
                if outer:
                    tr.log(e="begin", entry=f"{cls.__name__}.{name}")
                tr.depth += 1
                try:
                    return orig(self_, *a, **kw)
                finally:
                    tr.depth -= 1
                    if outer:
                        tr.log(e="end")
            _as_attribute(wrapper, cls, name)
            setattr(cls, name, wrapper)

        from rpylib.process.coupling.couplinglevycopula import CouplingProcessLevyCopula
        wrap_sample(LevyProcess, "simulate_one_path")
        wrap_sample(CouplingMarkovChain, "simulate_one_path")
        wrap_sample(CouplingMarkovChain, "simulate_one_path_with_coupling")
        wrap_sample(CouplingProcessLevyCopula, "simulate_one_path")
        wrap_sample(CouplingProcessLevyCopula, "simulate_one_path_with_coupling")
        # series-representation process (wave 5): a Process of its own, not a LevyProcess
        from rpylib.process.levycopulaseries import LevyCopula2dSeriesRepresentation
        wrap_sample(LevyCopula2dSeriesRepresentation, "simulate_one_path")

        def wrap_pre(cls):
            orig = cls.pre_computation
            self._orig[(cls.__name__, "pre_computation")] = orig

            def wrapper(self_, mc_paths, product):
                if tr.active and tr.depth == 0:
                    tr.log(e="pre", n=int(mc_paths), entry=cls.__name__)
                tr.depth += 1
                try:
                    return orig(self_, mc_paths, product)
                finally:
                    tr.depth -= 1
            _as_attribute(wrapper, cls, "pre_computation")
            cls.pre_computation = wrapper
        wrap_pre(LevyProcess)
        wrap_pre(CouplingMarkovChain)
        wrap_pre(CouplingProcessLevyCopula)

        # ---- coupling decisions: which draws are made inside coupling_state, and which variate is really compared
        from rpylib.process.coupling.couplingmarkovchain import CouplingSimulation
        orig_prob = CouplingSimulation.probability_to_right_jump
        orig_cs = CouplingSimulation.coupling_state
        self._orig[("CouplingSimulation", "probability_to_right_jump")] = orig_prob
        self._orig[("CouplingSimulation", "coupling_state")] = orig_cs

        def probability_to_right_jump(grid, mass, increment):
            p = orig_prob(grid, mass, increment)
            return Probe(p) if tr.active else p

        def coupling_state(self_, increment):
            if not tr.active:
                return orig_cs(self_, increment)
            tr.log(e="dec_begin")
            try:
                return orig_cs(self_, increment)
            finally:
                tr.log(e="dec_end")
        _as_attribute(probability_to_right_jump, CouplingSimulation, "probability_to_right_jump")
        _as_attribute(coupling_state, CouplingSimulation, "coupling_state")
        CouplingSimulation.probability_to_right_jump = staticmethod(probability_to_right_jump)
        CouplingSimulation.coupling_state = coupling_state

        # ---- copula coupling decisions (wave 5): `u <= probability` inside CouplingLevyCopulaSimulation.__coupling_state.
        # The uniform source of the coupling process (`_uniform`, a source of randomness) is replaced by a proxy that hands
        # out the very same numpy variates as an ndarray subclass logging the first comparison made with them.
        from rpylib.process.coupling.couplinglevycopula import CouplingLevyCopulaSimulation
        mangled = "_CouplingLevyCopulaSimulation__coupling_state"
        orig_ccs = getattr(CouplingLevyCopulaSimulation, mangled)
        self._orig[("CouplingLevyCopulaSimulation", mangled)] = orig_ccs

        def copula_coupling_state(self_, increment, axis_coordinates=None):
            if not tr.active:
                return orig_ccs(self_, increment, axis_coordinates)
            tr.log(e="dec_begin")
            tr.cop_dec += 1
            try:
                return orig_ccs(self_, increment, axis_coordinates)
            finally:
                tr.cop_dec -= 1
                tr.log(e="dec_end")
        _as_attribute(copula_coupling_state, CouplingLevyCopulaSimulation, mangled)
        setattr(CouplingLevyCopulaSimulation, mangled, copula_coupling_state)

        orig_cplc_init = CouplingProcessLevyCopula.__init__
        self._orig[("CouplingProcessLevyCopula", "__init__")] = orig_cplc_init

        def cplc_init(self_, *a, **kw):
            orig_cplc_init(self_, *a, **kw)
            self_._uniform = UniformProbe(self_._uniform)
        _as_attribute(cplc_init, CouplingProcessLevyCopula, "__init__")
        CouplingProcessLevyCopula.__init__ = cplc_init

        from rpylib.montecarlo.statistic.statistic import MCStatistics, MLMCStatistics
        orig_add = MCStatistics.add
        orig_mladd = MLMCStatistics.add
        self._lvl = None

        def mc_add(self_, simulation, path_manager):
            if tr.active:
                tr.log(e="stat", lvl=(-1 if tr._lvl is None else int(tr._lvl)), idx=int(simulation),
                       val=np.ravel(np.asarray(path_manager.payoff, dtype=float)).tolist())
            return orig_add(self_, simulation, path_manager)

        def ml_add(self_, simulation, level, path_manager):
            tr._lvl = level
            try:
                return orig_mladd(self_, simulation, level, path_manager)
            finally:
                tr._lvl = None
        _as_attribute(mc_add, MCStatistics, "add")
        _as_attribute(ml_add, MLMCStatistics, "add")
        MCStatistics.add = mc_add
        MLMCStatistics.add = ml_add

        # ---- pool: log inside the worker which iteration index a task got
        import pathos.multiprocessing as pmp
        OrigPool = pmp.Pool
        self._orig[("pathos", "Pool")] = OrigPool

        class TracingPool(OrigPool):
            def map_async(self_, func, iterable, chunksize=None, callback=None, error_callback=None):
                items = list(iterable)
                tr.pool_seq += 1
                tr.log(e="pool", w=int(self_._processes), n=len(items), seq=tr.pool_seq)
                return OrigPool.map_async(self_, TaskWrap(func, tr.pool_seq), items, chunksize, callback, error_callback)
        pmp.Pool = TracingPool


def _as_attribute(fn, cls, name):
    """make dill pickle the wrapper by reference (as <module>.<Class>.<name>), like the method it replaces"""
    fn.__name__ = name
    fn.__qualname__ = f"{cls.__qualname__}.{name}"
    fn.__module__ = cls.__module__


class Probe:
    """stands for the probability p in `u < p` inside coupling_state and records the variate u really compared
    (numpy defers the comparison to the reflected operator because of __array_ufunc__ = None)"""

    __array_ufunc__ = None

    def __init__(self, p):
        self.p = p

    @staticmethod
    def _u(u):
        u = float(np.asarray(u).ravel()[0])
        TR.log(e="use", val=u)
        return u

    def __gt__(self, u):      # u < p
        return self._u(u) < self.p

    def __ge__(self, u):      # u <= p
        return self._u(u) <= self.p

    def __lt__(self, u):      # u > p
        return self._u(u) > self.p

    def __le__(self, u):      # u >= p
        return self._u(u) >= self.p

    def __float__(self):
        return float(self.p)


class UseArray(np.ndarray):
    """the variates returned by one `sample()` call made inside a copula coupling decision; the first comparison made with
    them is logged as the `use` of the variate (the decision walks through cumulated probabilities: one multi-way decision
    compares the same u several times -- that is one use)"""

    _c08_used = False

    def _use(self):
        if not self._c08_used:
            self._c08_used = True
            TR.log(e="use", val=float(np.asarray(self).ravel()[0]))
        return np.asarray(self)

    def __le__(self, o):
        return self._use() <= o

    def __lt__(self, o):
        return self._use() < o

    def __ge__(self, o):
        return self._use() >= o

    def __gt__(self, o):
        return self._use() > o


class UniformProbe:
    """stands for CouplingProcessLevyCopula._uniform: same generator calls, same values; inside a coupling decision the
    variates come back as UseArray"""

    def __init__(self, real):
        self.real = real

    def sample(self, size=1):
        res = self.real.sample(size=size) if size != 1 else self.real.sample()
        if TR.active and TR.cop_dec > 0:
            return np.asarray(res).view(UseArray)
        return res

    def reset_sampling_cost(self):
        return self.real.reset_sampling_cost()

    def cost(self):
        return self.real.cost()

    @property
    def sampling_cost(self):
        return self.real.sampling_cost

    @sampling_cost.setter
    def sampling_cost(self, v):
        self.real.sampling_cost = v


class TaskWrap:
    """callable pickled to the workers instead of the engine's closure; logs the iteration index"""

    def __init__(self, func, seq=0):
        self.func = func
        self.seq = seq

    def __call__(self, it):
        TR.log(e="task", it=int(it), seq=self.seq, obj=id(self))
        return self.func(it)


class TracingDeque(collections.deque):
    """deque of pre-drawn rows; every row keeps the tag (creation number of its deque, row number)
    through deepcopy and pickling, so a row popped from two copies is recognised."""

    def __init__(self, *args):
        super().__init__(*args)
        if args:
            TR.deque_counter += 1
            self.cid = TR.deque_counter
            self.tags = list(range(len(self)))
            first = collections.deque.__getitem__(self, 0) if len(self) else None
            TR.log(e="new", cid=self.cid, n=len(self), width=int(np.size(first)) if first is not None else 0,
                   rows=[np.ravel(np.asarray(r, dtype=float)).tolist() for r in self] if len(self) <= 512 else None)
        else:
            self.cid = 0
            self.tags = []

    def popleft(self):
        tag = self.tags.pop(0) if self.tags else -1
        TR.log(e="pop", cid=self.cid, row=tag, obj=id(self))
        return super().popleft()

    def __getitem__(self, i):
        # a row read without being removed is a consumption too (it can be read again)
        if isinstance(i, int) and self.tags:
            try:
                TR.log(e="pop", cid=self.cid, row=self.tags[i], obj=id(self), peek=True)
            except IndexError:
                pass
        return super().__getitem__(i)

    def pop(self):
        tag = self.tags.pop() if self.tags else -1
        TR.log(e="pop", cid=self.cid, row=tag, obj=id(self), right=True)
        return super().pop()

    def __reduce__(self):
        return (_rebuild_deque, (list(self), self.cid, list(self.tags)))

    def __deepcopy__(self, memo):
        import copy
        return _rebuild_deque(copy.deepcopy(list(self), memo), self.cid, list(self.tags), copied=True)


def _rebuild_deque(items, cid, tags, copied=False):
    d = TracingDeque()
    collections.deque.extend(d, items)
    d.cid = cid
    d.tags = tags
    if cid:
        TR.log(e="copy" if copied else "arrive", cid=cid, n=len(items), first=(tags[0] if tags else 0), obj=id(d))
    return d


TR = Tracer()


# ---------------------------------------------------------------------------------------- analysis
class Canon:
    """One process' event log in the vocabulary of Model/Rng.v.

    events  : encoded events, exactly `map enc_ev` of the model
                [0,s] seed | [1,py,sid,from,k] draw | [2,cid,n] new deque | [3,cid,row] pop | [4,lvl] begin | [5] end
    samples : dicts {lvl, idx, val, pos:[(py,sid,i)...] in consumption order, rows:[(cid,row)...],
              sched:[(py,k,decision?)...], uses:[(value, position or None)...], it}
              [6,py,sid,i] in `events` = a coupling decision compared the variate at that position
    problems: things the abstraction relies on that the log contradicts (strings)
    hashes  : [(kind, hash-after)] for every event that changes a generator state (seed, draw with k>0)
    chunks  : sample index ranges separated by the arrival of a fresh deque copy (worker logs)"""

    def __init__(self):
        self.events, self.samples, self.problems, self.hashes = [], [], [], []
        self.rowpos: dict[tuple, list] = {}
        self.chunk_starts: list[int] = []
        self.seeds: list[int] = []
        self.gaps: list[int] = []
        self.chunk_arrivals: list[list] = []   # per chunk: [(cid, rows, first remaining row)] of the deque copies that arrived
        self.pools: list[dict] = []            # parent: one entry per Pool.map_async, with the statistics written by its callback
        self.uses: list[tuple] = []          # (value compared by a coupling decision, its position or None, sample number)


def canonical(events: list[dict], ambient: int = AMBIENT, rowpos: dict | None = None) -> Canon:
    c = Canon()
    if rowpos:
        c.rowpos.update(rowpos)
    sid = {NP: ambient, PY: ambient}
    idx = {NP: 0, PY: 0}
    cur = None
    pending_seed = None
    pre: list[dict] = []          # draws made outside samples and not yet attributed to a deque
    claimed_normal = None
    last_arrive_sample = -1
    task_it = None
    in_dec = 0
    valpos: dict[float, list] = {}     # value of a uniform variate -> positions at which the generator produced it
    last_state = {NP: None, PY: None}  # generator state after the last traced event of the stream
    for ev in events:
        e = ev["e"]
        if e in ("seed", "draw"):
            # continuity: the state before a traced call must be the state after the previous traced call of that
            # stream; a gap means that something outside the traced entry points consumed or reset the generator
            if last_state[ev["st"]] is not None and ev["hb"] != last_state[ev["st"]] and len(c.gaps) < 5:
                c.gaps.append(len(c.events))
                c.problems.append(f"the {'numpy' if ev['st'] == NP else 'python'} generator state changed between two traced calls "
                                  f"(before event {len(c.events)}: an untraced source of randomness)")
            last_state[ev["st"]] = ev["ha"]
        if e == "dec_begin":
            in_dec += 1
            continue
        if e == "dec_end":
            in_dec -= 1
            continue
        if e == "use":
            ps = valpos.get(ev["val"], [])
            if len(ps) != 1:
                c.problems.append(f"coupling decision compares {ev['val']!r}, " + ("which no traced generator call of this process produced"
                                                                                  if not ps else "produced at several positions"))
            p = ps[0] if len(ps) == 1 else None
            c.events.append([6, -1, -1, -1] if p is None else [6, p[0], p[1], p[2]])
            c.uses.append((ev["val"], p, len(c.samples)))
            if cur is not None:
                cur["uses"].append((ev["val"], p))
                if p is not None and p not in cur["pos"]:
                    c.problems.append(f"coupling decision of sample {len(c.samples)} compares the variate at {p}, which was not drawn during that sample (buffered)")
            else:
                c.problems.append("coupling decision outside a sample")
            continue
        if e == "seed":
            if ev["s"] is None:
                c.problems.append("seed(None) call")
            if ev["st"] == NP:
                pending_seed = ev["s"]
                sid[NP], idx[NP] = ev["s"], 0
                c.hashes.append(("np", ev["ha"], "seed"))
            else:
                sid[PY], idx[PY] = ev["s"], 0
                c.hashes.append(("py", ev["ha"], "seed"))
                if pending_seed is None or pending_seed != ev["s"]:
                    c.problems.append(f"random.seed({ev['s']}) not paired with np.random.seed of the same value")
                    c.events.append([7, ev["s"]])
                else:
                    c.events.append([0, ev["s"]])
                    c.seeds.append(ev["s"])
                pending_seed = None
        elif e == "draw":
            st, k = ev["st"], ev["k"]
            pos = [(st, sid[st], idx[st] + j) for j in range(k)]
            c.events.append([1, st, sid[st], idx[st], k])
            idx[st] += k
            if k > 0:
                if ev["hb"] == ev["ha"]:
                    c.problems.append(f"draw {ev['op']} of {k} variates left the generator state unchanged")
                c.hashes.append(("np" if st == NP else "py", ev["ha"], "draw"))
            if ev.get("vals") is not None and ev["op"] in ("uniform", "random_sample", "random", "ranf", "sample", "rand"):
                for v, p_ in zip(ev["vals"], pos):
                    valpos.setdefault(v, []).append(p_)
            if cur is not None:
                cur["pos"].extend(pos)
                cur["sched"].append((st, k, in_dec > 0))
            else:
                pre.append({"op": ev["op"], "pos": pos, "vals": ev.get("vals"), "shape": ev.get("shape")})
        elif e == "new":
            c.events.append([2, ev["cid"], ev["n"]])
            n, rows = ev["n"], ev.get("rows")
            if n > 0:
                w = ev["width"]
                # Brownian deque: rows of the last normal block; Poisson deque: the singles before it, column-major
                if pre and pre[-1]["op"] == "normal" and len(pre[-1]["pos"]) == n * w and claimed_normal is None:
                    blk = pre[-1]
                    claimed_normal = len(pre) - 1
                    for i in range(n):
                        c.rowpos[(ev["cid"], i)] = blk["pos"][i * w:(i + 1) * w]
                        if rows is not None and blk["vals"] is not None and rows[i] != blk["vals"][i * w:(i + 1) * w]:
                            c.problems.append(f"Brownian row {i} of deque {ev['cid']} is not the {i}-th block of the normal draw")
                elif claimed_normal is not None and claimed_normal >= n * w and \
                        all(d["op"] == "poisson" and len(d["pos"]) == 1 for d in pre[claimed_normal - n * w:claimed_normal]):
                    singles = pre[claimed_normal - n * w:claimed_normal]
                    for i in range(n):
                        c.rowpos[(ev["cid"], i)] = [singles[k * n + i]["pos"][0] for k in range(w)]
                        if rows is not None and rows[i] != [singles[k * n + i]["vals"][0] for k in range(w)]:
                            c.problems.append(f"Poisson row {i} of deque {ev['cid']} is not column {i} of the Poisson draws")
                    pre, claimed_normal = [], None
                else:
                    c.problems.append(f"deque {ev['cid']} ({n} rows of width {w}) cannot be matched with the draws that precede it")
            else:
                if claimed_normal is None and pre and pre[-1]["op"] == "normal":
                    claimed_normal = len(pre) - 1
                else:
                    pre, claimed_normal = [], None
        elif e == "pop":
            c.events.append([8 if ev.get("peek") or ev.get("right") else 3, ev["cid"], ev["row"]])
            if cur is not None:
                cur["rows"].append((ev["cid"], ev["row"]))
                rp = c.rowpos.get((ev["cid"], ev["row"]))
                if rp is None:
                    c.problems.append(f"row {(ev['cid'], ev['row'])} popped but never seen created")
                else:
                    cur["pos"].extend(rp)
            else:
                c.problems.append("pop outside a sample")
        elif e == "begin":
            cur = {"pos": [], "rows": [], "sched": [], "uses": [], "lvl": None, "idx": None, "val": None, "entry": ev.get("entry"),
                   "it": task_it, "evpos": len(c.events)}
            c.events.append([4, None])
            task_it = None
        elif e == "end":
            c.events.append([5])
            c.samples.append(cur)
            cur = None
        elif e == "stat":
            if c.pools:
                c.pools[-1]["stats"].append((ev["lvl"], ev["idx"], tuple(ev["val"])))
            if c.samples and c.samples[-1]["idx"] is None:
                sm = c.samples[-1]
                sm.update(lvl=ev["lvl"], idx=ev["idx"], val=ev["val"])
                c.events[sm["evpos"]][1] = ev["lvl"]
        elif e == "task":
            task_it = (ev.get("seq", 0), ev["it"])
        elif e == "arrive":
            if last_arrive_sample != len(c.samples):
                c.chunk_starts.append(len(c.samples))
                c.chunk_arrivals.append([])
                last_arrive_sample = len(c.samples)
            c.chunk_arrivals[-1].append((ev["cid"], ev["n"], ev.get("first", 0)))
        elif e == "pool":
            c.pools.append({"seq": ev.get("seq", 0), "n": ev["n"], "stats": []})
    if pending_seed is not None:
        c.problems.append("np.random.seed not followed by random.seed")
    if cur is not None:
        c.problems.append("sample begun and never ended")
    return c

"""Offline stand-in for gmpy2 (not installable in the sandbox): exact rational division."""
from fractions import Fraction


def qdiv(a, b=1):
    return Fraction(a, b)

"""Offline stand-in for tqdm: identity iterator."""


def tqdm(iterable=None, *args, **kwargs):
    return iterable


def trange(*args, **kwargs):
    return range(*args)

"""py2coq table for C01 (rpylib/model/levymodel/levymodel.py: TruncatedLevyMeasure._truncated_interval)."""

SPECS = {
    "GenC01Trunc": {
        "file": "rpylib/model/levymodel/levymodel.py",
        "dom": "Q",
        "funcs": [
            {"py": "TruncatedLevyMeasure._truncated_interval", "coq": "truncated_interval", "pyargs": ["a", "b"],
             "args": [("l", "Q"), ("r", "Q"), ("a", "Q"), ("b", "Q")], "ret": "Q * Q",
             "attrs": {"self.truncations": "(l, r)"}},
        ],
    },
}

# ---- wave 6: the SAME loop / cell helpers regenerated over R (loop plug-in harness/py2coq_loops.py, primitives Proofs/Tie_PyLoops.v), so
# that the chain can be instantiated with the real-valued closed forms of C09 (Gen/GenC09Hem.v ...): Proofs/C01_ChainR.v proves the
# generated create_q_vector equal to Model/ChainR.v's q_vectorR and states C01_hem_chain_rates about the generated definitions
_HDR_R = ("From Coq Require Import ZArith Reals Bool List.\n"
          "From RV Require Import Base.RB Proofs.Tie_PyLoops.\nImport ListNotations.\nOpen Scope R_scope.\n")
_RRR = "R -> R -> R"
SPECS["GenC01ChainR"] = {
    "file": "rpylib/distribution/samplingfactory.py", "dom": "R", "ext": "py2coq_loops", "header": _HDR_R,
    "funcs": [
        {"file": "rpylib/grid/spatial.py", "py": "CTMCGrid.left_point", "coq": "left_point", "pyargs": ["coordinate"],
         "emitter": "py2coq_loops:guarded", "decorators": ["singledispatchmethod"],   # wave 8: source guards (one def per name, declared decorators, free names)
         "dispatch": {"variant": "base", "registered": ["Coordinate1D", "CoordinateND"]},   # wave 8 core guard (c)
         "args": [("axes0", "list R"), ("coordinate", "Z")], "ret": "R",
         "lists": {"self.axes[0]": ("axes0", "R")}, "int_names": ["coordinate"]},
        {"file": "rpylib/grid/spatial.py", "py": "CTMCGrid.right_point", "coq": "right_point", "pyargs": ["coordinate"],
         "emitter": "py2coq_loops:guarded", "decorators": ["singledispatchmethod"],   # wave 8: source guards (one def per name, declared decorators, free names)
         "dispatch": {"variant": "base", "registered": ["Coordinate1D", "CoordinateND"]},
         "args": [("axes0", "list R"), ("coordinate", "Z")], "ret": "R",
         "lists": {"self.axes[0]": ("axes0", "R")}, "int_names": ["coordinate"]},
        {"file": "rpylib/grid/spatial.py", "py": "CTMCGrid.middle", "coq": "middle", "emitter": "py2coq_loops:registered",
         "variant_of": "float", "ext": "py2coq_loops", "pyargs": ["xi", "xip"], "args": [("xi", "R"), ("xip", "R")], "ret": "R"},
        {"py": "create_q_vector", "coq": "create_q_vector", "pyargs": ["levy_measure", "grid"], "emitter": "py2coq_loops:guarded",
         "args": [("int_lm", _RRR), ("grid_middle", _RRR), ("axes0", "list R"), ("origin_coordinate", "Z")], "ret": "list R",
         "attrs": {"levy_measure.integrate": "int_lm"}, "int_attrs": {"grid.origin_coordinate": "origin_coordinate"},
         "calls": {"int_lm": "int_lm", "grid.middle": "grid_middle"},
         "int_calls": {"grid.left_point": "left_point axes0", "grid.right_point": "right_point axes0"},
         "lists": {"grid.axes[0]": ("axes0", "R")}},
        # compute_intensity_of_jumps specialised to a 1-d model, as in specs/TIE.py (itertools.product / next / the loop over the remaining
        # blocks unrolled at translation time by the plug-in's "checked" emitter), over R
        {"py": "compute_intensity_of_jumps", "coq": "compute_intensity_of_jumps_1d", "pyargs": ["model", "grid"],
         "emitter": "py2coq_loops:checked", "require_imports": {"product": "itertools"},
         "args": [("mass", _RRR), ("grid_middle", _RRR), ("axes0", "list R"), ("origin_coordinate", "Z")], "ret": "R",
         "static_tests": {"model.dimension_model() == 1": True},
         "attrs": {"grid.origin": "(IZR 0)"}, "int_attrs": {"grid.origin_coordinate": "origin_coordinate"},
         "calls": {"grid.middle": "grid_middle"}, "kw_calls": {"model.mass": ("mass", ["a", "b"])},
         "int_calls": {"grid.left_point": "left_point axes0", "grid.right_point": "right_point axes0"},
         "lists": {"grid.axes[0]": ("axes0", "R")}},
    ],
}

"""py2coq table for C01 (rpylib/model/levymodel/levymodel.py: TruncatedLevyMeasure._truncated_interval)."""

SPECS = {
    "GenC01Trunc": {
        "file": "rpylib/model/levymodel/levymodel.py",
        "dom": "Q",
        "funcs": [
            {"py": "TruncatedLevyMeasure._truncated_interval", "coq": "truncated_interval", "pyargs": ["a", "b"],
             "args": [("l", "Q"), ("r", "Q"), ("a", "Q"), ("b", "Q")], "ret": "Q * Q",
             "attrs": {"self.truncations": "(l, r)"}},
        ],
    },
}

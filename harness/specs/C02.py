"""py2coq table for C02: none of the samplers is straight-line code (loops, deques, mutation) -- all models are
hand-written (Model/{Bst,Alias,Huffman,Table,Inversion,BstAdapted}.v) and tied by the vm_compute correspondence.
The inversion correspondence instantiates the enumeration with z1d_project/z1d_pair of Gen.GenPairing (spec in C14.py)."""

SPECS = {}

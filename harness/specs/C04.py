"""py2coq table for C04 (rpylib/model/levymodel/levymodel.py: the drift conversions of LevyTriplet).

rep : Z is LevyRepresentation.value (ZERO=1, CENTER=2, ONEONE=3, TILDE=4); fv = nu.jump_of_finite_variation();
m1 a b = nu.integrate_against_x(a, b) and pinf stands for np.inf (Section variables: the hand model instantiates
m1 with the truncated first-moment integral, which clips +-pinf to the truncation bounds).  `err` is the value of a
`raise` (ZERO representation with jumps of infinite variation -> ValueError): the theorems hold for every err under the
guard (fv = true or rep <> ZERO); the correspondence instantiates err with a sentinel and expects the ValueError."""

_REP = "LevyRepresentation"
_BEX = {
    f"self.representation not in [{_REP}.ZERO, {_REP}.CENTER, {_REP}.ONEONE, {_REP}.TILDE]":
        "(negb (orb (orb (Z.eqb rep 1) (Z.eqb rep 2)) (orb (Z.eqb rep 3) (Z.eqb rep 4))))",
    f"self.representation == {_REP}.ONEONE": "(Z.eqb rep 3)",
    f"self.representation == {_REP}.ZERO": "(Z.eqb rep 1)",
    f"self.representation == {_REP}.TILDE": "(Z.eqb rep 4)",
    f"self.representation == {_REP}.CENTER": "(Z.eqb rep 2)",
    "self.nu.jump_of_finite_variation()": "fv",
}
_ARGS = [("rep", "Z"), ("fv", "bool"), ("a", "Q")]


def _fn(py, coq):
    return {"py": py, "coq": coq, "pyargs": [], "args": _ARGS, "ret": "Q", "attrs": {"self.a": "a"}, "on_raise": "err",
            "calls": {"self.nu.integrate_against_x": "m1", "self.canonical_drift": "canonical_drift rep fv a"}}


SPECS = {
    "GenC04Triplet": {
        "file": "rpylib/model/levymodel/levymodel.py",
        "dom": "Q",
        "consts": {"np.inf": "pinf"},
        "bexprs": _BEX,
        "section": [("m1", "Q -> Q -> Q"), ("pinf", "Q"), ("err", "Q")],
        "funcs": [
            _fn("LevyTriplet.canonical_drift", "canonical_drift"),
            _fn("LevyTriplet.zero_drift", "zero_drift"),
            _fn("LevyTriplet.center_drift", "center_drift"),
            _fn("LevyTriplet.tilde_drift", "tilde_drift"),
        ],
    },
    # the drift DISPATCH: LevyTriplet.set_representation + the _drift_mapping dict of LevyTriplet.__init__ + the enum values
    # (harness/py2coq_c04.py); result = (new a, new representation); KeyError / ValueError = err
    "GenC04SetRep": {
        "file": "rpylib/model/levymodel/levymodel.py",
        "dom": "Q",
        "header": ("From Coq Require Import ZArith QArith Qminmax Qabs Bool List.\nFrom RV Require Import Base.QB Gen.GenC04Triplet.\n"
                   "Open Scope Q_scope.\n"),
        "section": [("m1", "Q -> Q -> Q"), ("pinf", "Q"), ("err", "Q")],
        "funcs": [
            {"py": "LevyTriplet.set_representation", "coq": "set_representation", "emitter": "py2coq_c04:emit_set_representation",
             "defaults_of": {"LevyTriplet.__init__": {"a": "0", "representation": "LevyRepresentation.ONEONE"}},
             "param": "representation", "enum": _REP, "enum_values": {"ZERO": 1, "CENTER": 2, "ONEONE": 3, "TILDE": 4},
             "mapping_attr": "self._drift_mapping", "on_raise": "err",
             "methods": {"self.canonical_drift": "canonical_drift m1 pinf err", "self.zero_drift": "zero_drift m1 pinf err",
                         "self.center_drift": "center_drift m1 pinf err", "self.tilde_drift": "tilde_drift m1 pinf err"}},
        ],
    },
}

"""py2coq table for C06 (rpylib/montecarlo/multilevel/criteria.py), real-valued."""

SPECS = {
    "GenC06Criteria": {
        "file": "rpylib/montecarlo/multilevel/criteria.py",
        "dom": "R",
        "ext": "py2coq_mc",
        "header": "From Coq Require Import ZArith Reals Bool List.\nFrom RV Require Import Base.RB Base.RCeilMC.\nOpen Scope R_scope.\n",
        "funcs": [
            # bias test on the last (up to) three level means; ml stays a list, indexing and len() stay visible
            {"py": "criteria_giles", "coq": "criteria_giles", "pyargs": ["alpha", "ml", "rmse"],
             "args": [("alpha", "R"), ("ml", "list R"), ("rmse", "R")], "ret": "bool", "list_param": "ml"},
            # scalar core of the allocation, one level: vl, cl = V_l, C_l; S = sum_k sqrt(V_k C_k)
            {"py": "compute_mc_paths_giles", "coq": "giles_alloc_core", "pyargs": ["rmse", "vl", "cl"],
             "args": [("rmse", "R"), ("vl", "R"), ("cl", "R"), ("S", "R")], "ret": "R",
             "giles_core": True, "on_raise": "(IZR (-1))", "elementwise": {"arrays": ["cl_zerocost"], "uninit": "0"}},
        ],
    },
    # the rate regression of Engine.price (nested function) and its call sites: emitters in harness/py2coq_c06.py
    "GenC06Regress": {
        "file": "rpylib/montecarlo/multilevel/engine.py",
        "dom": "R",
        "header": "From Coq Require Import ZArith Reals Bool List.\nFrom RV Require Import Base.RB Model.Regress.\nOpen Scope R_scope.\n",
        "funcs": [
            {"py": "Engine.price.log2_regression", "coq": "log2_regression", "emitter": "py2coq_c06:log2_regression"},
            {"py": "Engine.price", "coq": "rate_call_sites", "emitter": "py2coq_c06:call_sites"},
        ],
    },
}

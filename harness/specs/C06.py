"""py2coq table for C06 (rpylib/montecarlo/multilevel/criteria.py), real-valued."""

SPECS = {
    "GenC06Criteria": {
        "file": "rpylib/montecarlo/multilevel/criteria.py",
        "dom": "R",
        "ext": "py2coq_mc",
        "header": "From Coq Require Import ZArith Reals Bool List.\nFrom RV Require Import Base.RB Base.RCeilMC.\nOpen Scope R_scope.\n",
        "funcs": [
            # bias test on the last three level means ml[-3], ml[-2], ml[-1]
            {"py": "criteria_giles", "coq": "criteria_giles", "pyargs": ["alpha", "ml", "rmse"],
             "args": [("alpha", "R"), ("m3", "R"), ("m2", "R"), ("m1", "R"), ("rmse", "R")], "ret": "bool",
             "subst": {"ml[-1]": "m1", "ml[-2]": "m2", "ml[-3]": "m3"}},
            # scalar core of the allocation, one level: vl, cl = V_l, C_l; S = sum_k sqrt(V_k C_k)
            {"py": "compute_mc_paths_giles", "coq": "giles_alloc_core", "pyargs": ["rmse", "vl", "cl"],
             "args": [("rmse", "R"), ("vl", "R"), ("cl", "R"), ("S", "R")], "ret": "R",
             "giles_core": True, "elementwise": {"arrays": ["cl_zerocost"], "uninit": "0"}},
        ],
    },
}

"""py2coq table for C09: closed-form Levy-measure integrals (hem.py, variancegamma.py, merton.py, levymodel.py).

Conventions of the generated R models
  * `self.parameters` / `params` are erased (bound to `tt`), the parameter attributes become arguments;
  * the float token `np.inf` is the argument `INF : R` (theorems about finite intervals assume -INF < a, b < INF, so the
    `== inf` tests are false; the half-line branches are selected with a = -INF / b = INF);
  * `raise ValueError` (a > b) is modelled as the value 0: every theorem assumes a <= b, the oracle checks the exception;
  * a method that calls itself on the two halves of a straddling interval is generated in open-recursion form: the callee is
    the argument `rec`; Model/LevyClosedForms.v ties the knot by unrolling twice (and proves the unrolling is complete).
"""

R = "R"

_HEM_ATTRS = {
    "self.parameters": "tt", "params.intensity": "lam", "params.p": "p", "params.eta1": "eta1", "params.eta2": "eta2",
    "self.parameters.p": "p", "self.parameters.eta1": "eta1", "self.parameters.eta2": "eta2",
    "self.parameters.intensity": "lam",
}
_HEM_ARGS = [("INF", R), ("lam", R), ("p", R), ("eta1", R), ("eta2", R)]


def _hem(py, coq, rec):
    return {"py": f"_HEMLevyMeasure.{py}", "coq": coq, "pyargs": ["a", "b"],
            "args": [("rec", "R -> R -> R")] + _HEM_ARGS + [("a", R), ("b", R)], "ret": R,
            "attrs": _HEM_ATTRS, "calls": {f"self.{py}": "rec"}, "on_raise": "(IZR 0)"}


_VG_ATTRS = {"self.parameters._c": "c", "self.parameters._lambda_m": "lm", "self.parameters._lambda_p": "lp"}
_VG_ARGS = [("INF", R), ("c", R), ("lm", R), ("lp", R)]


def _vg(py, coq, rec=True, section_e1=False):
    d = {"py": f"_VGLevyMeasure.{py}", "coq": coq, "pyargs": ["a", "b"],
         "args": ([("rec", "R -> R -> R")] if rec else []) + _VG_ARGS + [("a", R), ("b", R)], "ret": R,
         "attrs": _VG_ATTRS, "calls": {f"self.{py}": "rec"} if rec else {}}
    return d


_ME_ATTRS = {"self.parameters.mu_j": "mu_j", "self.parameters.sigma_j": "sigma_j", "self.parameters.intensity": "lam"}
_ME_ARGS = [("INF", R), ("lam", R), ("mu_j", R), ("sigma_j", R)]

SPECS = {
    "GenC09Hem": {
        "file": "rpylib/model/levymodel/mixed/hem.py", "dom": "R", "consts": {"np.inf": "INF"},
        "funcs": [
            {"py": "_HEMLevyMeasure.__call__", "coq": "hem_nu", "pyargs": ["x"],
             "args": [("lam", R), ("p", R), ("eta1", R), ("eta2", R), ("x", R)], "ret": R, "attrs": _HEM_ATTRS},
            _hem("integrate", "hem_integrate_F", True),
            _hem("integrate_against_x", "hem_integrate_x_F", True),
            _hem("integrate_against_xx", "hem_integrate_xx_F", True),
        ],
    },
    "GenC09Vg": {
        "file": "rpylib/model/levymodel/purejump/variancegamma.py", "dom": "R", "consts": {"np.inf": "INF"},
        "section": [("exp1", "R -> R")],
        "calls": {"spp.exp1": "exp1"},
        "funcs": [
            {"py": "_VGLevyMeasure.__call__", "coq": "vg_nu", "pyargs": ["x"],
             "args": [("c", R), ("lm", R), ("lp", R), ("x", R)], "ret": R, "attrs": _VG_ATTRS},
            {"py": "_VGLevyMeasure.x_nu", "coq": "vg_x_nu", "pyargs": ["x"],
             "args": [("c", R), ("lm", R), ("lp", R), ("x", R)], "ret": R, "attrs": _VG_ATTRS},
            _vg("integrate", "vg_integrate", rec=False),
            _vg("integrate_against_x", "vg_integrate_x_F"),
            _vg("integrate_against_xx", "vg_integrate_xx_F"),
        ],
    },
    "GenC09Merton": {
        "file": "rpylib/model/levymodel/mixed/merton.py", "dom": "R", "consts": {"np.inf": "INF", "np.pi": "PI"},
        "header": "From Coq Require Import ZArith Reals Bool List.\nFrom RV Require Import Base.RB Base.RSpecial.\nOpen Scope R_scope.\n",
        "calls": {"scipy.special.erf": "erf", "self._helper_erf_aux": "merton_erf_aux"},
        "funcs": [
            {"py": "_MertonLevyMeasure._helper_erf_aux", "coq": "merton_erf_aux", "pyargs": ["mu", "sigma", "x"],
             "args": [("mu", R), ("sigma", R), ("x", R)], "ret": R},
            {"py": "_MertonLevyMeasure.__call__", "coq": "merton_nu", "pyargs": ["x"],
             "args": [("lam", R), ("mu_j", R), ("sigma_j", R), ("x", R)], "ret": R, "attrs": _ME_ATTRS},
            {"py": "_MertonLevyMeasure.integrate", "coq": "merton_integrate", "pyargs": ["a", "b"],
             "args": [("lam", R), ("mu_j", R), ("sigma_j", R), ("a", R), ("b", R)], "ret": R, "attrs": _ME_ATTRS},
            {"py": "_MertonLevyMeasure.integrate_against_x", "coq": "merton_integrate_x", "pyargs": ["a", "b"], "nested_defs": True,
             "args": [("lam", R), ("mu_j", R), ("sigma_j", R), ("a", R), ("b", R)], "ret": R, "attrs": _ME_ATTRS},
            {"py": "_MertonLevyMeasure.integrate_against_xx", "coq": "merton_integrate_xx", "pyargs": ["a", "b"], "nested_defs": True,
             "args": [("INF", R), ("lam", R), ("mu_j", R), ("sigma_j", R), ("a", R), ("b", R)], "ret": R, "attrs": _ME_ATTRS},
        ],
    },
    "GenC09Trunc": {
        "file": "rpylib/model/levymodel/levymodel.py", "dom": "R",
        "funcs": [
            {"py": "TruncatedLevyMeasure._truncated_interval", "coq": "truncated_interval", "pyargs": ["a", "b"],
             "args": [("l", R), ("r", R), ("a", R), ("b", R)], "ret": "R * R",
             "attrs": {"self.truncations": "(l, r)"}},
            {"py": "TruncatedLevyMeasure.__call__", "coq": "truncated_nu", "pyargs": ["x"],
             "args": [("nu", "R -> R"), ("l", R), ("r", R), ("x", R)], "ret": R,
             "attrs": {"self.truncations": "(l, r)"}, "calls": {"self.levy_measure": "nu"}},
        ],
    },
}

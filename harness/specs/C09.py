"""py2coq table for C09: closed-form Levy-measure integrals (hem.py, variancegamma.py, merton.py, levymodel.py).

Conventions of the generated R models
  * `self.parameters` / `params` are erased (bound to `tt`), the parameter attributes become arguments;
  * the float token `np.inf` is the argument `INF : R` (theorems about finite intervals assume -INF < a, b < INF, so the
    `== inf` tests are false; the half-line branches are selected with a = -INF / b = INF);
  * `raise ValueError` (a > b) is modelled as the value 0: every theorem assumes a <= b, the oracle checks the exception;
  * a method that calls itself on the two halves of a straddling interval is generated in open-recursion form: the callee is
    the argument `rec`; Model/LevyClosedForms.v ties the knot by unrolling twice (and proves the unrolling is complete).
"""

R = "R"

_HEM_ATTRS = {
    "self.parameters": "tt", "params.intensity": "lam", "params.p": "p", "params.eta1": "eta1", "params.eta2": "eta2",
    "self.parameters.p": "p", "self.parameters.eta1": "eta1", "self.parameters.eta2": "eta2",
    "self.parameters.intensity": "lam",
}
_HEM_ARGS = [("INF", R), ("lam", R), ("p", R), ("eta1", R), ("eta2", R)]


def _hem(py, coq, rec):
    return {"py": f"_HEMLevyMeasure.{py}", "coq": coq, "pyargs": ["a", "b"],
            "args": [("rec", "R -> R -> R")] + _HEM_ARGS + [("a", R), ("b", R)], "ret": R,
            "attrs": _HEM_ATTRS, "calls": {f"self.{py}": "rec"}, "on_raise": "(IZR 0)"}


_VG_ATTRS = {"self.parameters._c": "c", "self.parameters._lambda_m": "lm", "self.parameters._lambda_p": "lp"}
_VG_ARGS = [("INF", R), ("c", R), ("lm", R), ("lp", R)]


def _vg(py, coq, rec=True, section_e1=False):
    d = {"py": f"_VGLevyMeasure.{py}", "coq": coq, "pyargs": ["a", "b"],
         "args": ([("rec", "R -> R -> R")] if rec else []) + _VG_ARGS + [("a", R), ("b", R)], "ret": R,
         "attrs": _VG_ATTRS, "calls": {f"self.{py}": "rec"} if rec else {}}
    return d


_ME_ATTRS = {"self.parameters.mu_j": "mu_j", "self.parameters.sigma_j": "sigma_j", "self.parameters.intensity": "lam"}
_ME_ARGS = [("INF", R), ("lam", R), ("mu_j", R), ("sigma_j", R)]

SPECS = {
    "GenC09Hem": {
        "file": "rpylib/model/levymodel/mixed/hem.py", "dom": "R", "consts": {"np.inf": "INF"},
        "funcs": [
            {"py": "_HEMLevyMeasure.__call__", "coq": "hem_nu", "pyargs": ["x"],
             "args": [("lam", R), ("p", R), ("eta1", R), ("eta2", R), ("x", R)], "ret": R, "attrs": _HEM_ATTRS},
            _hem("integrate", "hem_integrate_F", True),
            _hem("integrate_against_x", "hem_integrate_x_F", True),
            _hem("integrate_against_xx", "hem_integrate_xx_F", True),
        ],
    },
    "GenC09Vg": {
        "file": "rpylib/model/levymodel/purejump/variancegamma.py", "dom": "R", "consts": {"np.inf": "INF"},
        "section": [("exp1", "R -> R")],
        "calls": {"spp.exp1": "exp1"},
        "funcs": [
            {"py": "_VGLevyMeasure.__call__", "coq": "vg_nu", "pyargs": ["x"],
             "args": [("c", R), ("lm", R), ("lp", R), ("x", R)], "ret": R, "attrs": _VG_ATTRS},
            {"py": "_VGLevyMeasure.x_nu", "coq": "vg_x_nu", "pyargs": ["x"],
             "args": [("c", R), ("lm", R), ("lp", R), ("x", R)], "ret": R, "attrs": _VG_ATTRS},
            _vg("integrate", "vg_integrate", rec=False),
            _vg("integrate_against_x", "vg_integrate_x_F"),
            _vg("integrate_against_xx", "vg_integrate_xx_F"),
        ],
    },
    "GenC09Merton": {
        "file": "rpylib/model/levymodel/mixed/merton.py", "dom": "R", "consts": {"np.inf": "INF", "np.pi": "PI"},
        "header": "From Coq Require Import ZArith Reals Bool List.\nFrom RV Require Import Base.RB Base.RSpecial.\nOpen Scope R_scope.\n",
        "calls": {"scipy.special.erf": "erf", "self._helper_erf_aux": "merton_erf_aux"},
        "funcs": [
            {"py": "_MertonLevyMeasure._helper_erf_aux", "coq": "merton_erf_aux", "pyargs": ["mu", "sigma", "x"],
             "args": [("mu", R), ("sigma", R), ("x", R)], "ret": R},
            {"py": "_MertonLevyMeasure.__call__", "coq": "merton_nu", "pyargs": ["x"],
             "args": [("lam", R), ("mu_j", R), ("sigma_j", R), ("x", R)], "ret": R, "attrs": _ME_ATTRS},
            {"py": "_MertonLevyMeasure.integrate", "coq": "merton_integrate", "pyargs": ["a", "b"],
             "args": [("lam", R), ("mu_j", R), ("sigma_j", R), ("a", R), ("b", R)], "ret": R, "attrs": _ME_ATTRS},
            {"py": "_MertonLevyMeasure.integrate_against_x", "coq": "merton_integrate_x", "pyargs": ["a", "b"], "nested_defs": True,
             "args": [("lam", R), ("mu_j", R), ("sigma_j", R), ("a", R), ("b", R)], "ret": R, "attrs": _ME_ATTRS},
            {"py": "_MertonLevyMeasure.integrate_against_xx", "coq": "merton_integrate_xx", "pyargs": ["a", "b"], "nested_defs": True,
             "args": [("INF", R), ("lam", R), ("mu_j", R), ("sigma_j", R), ("a", R), ("b", R)], "ret": R, "attrs": _ME_ATTRS},
        ],
    },
    "GenC09Trunc": {
        "file": "rpylib/model/levymodel/levymodel.py", "dom": "R",
        "funcs": [
            {"py": "TruncatedLevyMeasure._truncated_interval", "coq": "truncated_interval", "pyargs": ["a", "b"],
             "args": [("l", R), ("r", R), ("a", R), ("b", R)], "ret": "R * R",
             "attrs": {"self.truncations": "(l, r)"}},
            {"py": "TruncatedLevyMeasure.__call__", "coq": "truncated_nu", "pyargs": ["x"],
             "args": [("nu", "R -> R"), ("l", R), ("r", R), ("x", R)], "ret": R,
             "attrs": {"self.truncations": "(l, r)"}, "calls": {"self.levy_measure": "nu"}},
        ],
    },
}

# ---- CGMY (wave 6, corrected in wave 8 after audit 5a B1 / X-e): cgmy.py's measure regenerated instead of hand-modelled.
#   Special functions are the projections of ONE record argument `sf : SpecialFns` (Model/PyPow.v): sf_exp1 = scipy.special.exp1,
#   sf_Gamma = scipy.special.gamma, sf_gammaincc / sf_gammainc = the regularised upper / lower incomplete gamma functions,
#   sf_quad_xx a b = scipy.integrate.quad(self._xx_levy_measure, a, b, points=points, limit=100)[0] (the local `points` only feeds quad:
#   it is erased to `tt`).  No Section variables any more: a Section variable is positional after discharge, so swapping gammaincc for
#   gammainc in the source left every proof compiling (X-e); with the record the NAME of the function is part of the generated term.
#   Private helpers that are called through `self.` become function arguments (h2inf, a2inf, inf2b, a2b) and the
#   self-calls become `rec`; Model/CgmyGen.v ties the knots.
#   `x ** e` is translated by the plug-in to `pypow x e` (Model/PyPow.v): Python's value on a base >= 0, in particular 0.0 ** positive = 0.0
#   (B1: py2coq's Rpower 0 e is 1, which made the generated first moment at an end point 0 differ from the code's value by 2/(1-y)...);
#   `0.0 ** negative` raises in Python: pypow_raises, the R value is a placeholder and every theorem keeps the end points away from such
#   calls; the option-valued model cgmy_x_neg_exec (F-C09-13) covers the raising case.  np.power(x_bar, .) in __call__ / _xx_levy_measure
#   stays Rpower: at x_bar = 0 both `x < 0` and `x > 0` are false and the value of `den` / `factor` is not read.
_CG_ATTRS = {"self.parameters.c": "c", "self.parameters.g": "g", "self.parameters.m": "m", "self.parameters.y": "y"}
_CG_KWSIG = {"self.__integrate_h_to_inf": ["alpha", "h", "u"], "self.__integrate_h_to_inf_for_xx": ["alpha", "h", "u"]}
_R3 = "R -> R -> R -> R"

SPECS["GenC09Cgmy"] = {
    "file": "rpylib/model/levymodel/purejump/cgmy.py", "dom": "R", "consts": {"np.inf": "INF"}, "ext": "py2coq_c09",
    "header": "From Coq Require Import ZArith Reals Bool List.\nFrom RV Require Import Base.RB Model.PyPow.\nOpen Scope R_scope.\n",
    "calls": {"scipy.special.exp1": "(sf_exp1 sf)", "scipy.special.gamma": "(sf_Gamma sf)", "scipy.special.gammaincc": "(sf_gammaincc sf)",
              "scipy.special.gammainc": "(sf_gammainc sf)", "np.power": "Rpower"},
    "kwsig": _CG_KWSIG,
    "funcs": [
        {"py": "_CGMYLevyMeasure.__call__", "coq": "cgmy_density", "pyargs": ["x"],
         "args": [("c", R), ("g", R), ("m", R), ("y", R), ("x", R)], "ret": R, "attrs": _CG_ATTRS},
        {"py": "_CGMYLevyMeasure._xx_levy_measure", "coq": "cgmy_xx_density", "pyargs": ["x"],
         "args": [("c", R), ("g", R), ("m", R), ("y", R), ("x", R)], "ret": R, "attrs": _CG_ATTRS},
        {"py": "_CGMYLevyMeasure.__integrate_h_to_inf", "coq": "cgmy_h_to_inf_F", "pyargs": ["alpha", "h", "u"],
         "args": [("sf", "SpecialFns"), ("rec", _R3), ("alpha", R), ("h", R), ("u", R)], "ret": R, "calls": {"self.__integrate_h_to_inf": "rec"}},
        {"py": "_CGMYLevyMeasure.__integrate_h_to_inf_for_xx", "coq": "cgmy_h_to_inf_for_xx", "pyargs": ["alpha", "h", "u"],
         "args": [("sf", "SpecialFns"), ("INF", R), ("alpha", R), ("h", R), ("u", R)], "ret": R, "join_live_only": True},
        {"py": "_CGMYLevyMeasure.__integrate_levy_measure_a_to_inf", "coq": "cgmy_a_to_inf", "pyargs": ["a"],
         "args": [("h2inf", _R3), ("c", R), ("m", R), ("y", R), ("a", R)], "ret": R, "attrs": _CG_ATTRS,
         "calls": {"self.__integrate_h_to_inf": "h2inf"}},
        {"py": "_CGMYLevyMeasure.__integrate_levy_measure_inf_to_b", "coq": "cgmy_inf_to_b", "pyargs": ["b"],
         "args": [("h2inf", _R3), ("c", R), ("g", R), ("y", R), ("b", R)], "ret": R, "attrs": _CG_ATTRS,
         "calls": {"self.__integrate_h_to_inf": "h2inf"}},
        {"py": "_CGMYLevyMeasure.__integrate_levy_measure_a_to_b", "coq": "cgmy_a_to_b_F", "pyargs": ["a", "b"],
         "args": [("rec", "R -> R -> R"), ("a2inf", "R -> R"), ("inf2b", "R -> R"), ("INF", R), ("y", R), ("a", R), ("b", R)], "ret": R,
         "attrs": _CG_ATTRS,
         "calls": {"self.__integrate_levy_measure_a_to_b": "rec", "self.__integrate_levy_measure_a_to_inf": "a2inf",
                   "self.__integrate_levy_measure_inf_to_b": "inf2b"}},
        {"py": "_CGMYLevyMeasure.integrate", "coq": "cgmy_integrate_F", "pyargs": ["a", "b"],
         "args": [("rec", "R -> R -> R"), ("a2inf", "R -> R"), ("inf2b", "R -> R"), ("a2b", "R -> R -> R"), ("INF", R), ("y", R), ("a", R), ("b", R)],
         "ret": R, "attrs": _CG_ATTRS,
         "calls": {"self.integrate": "rec", "self.__integrate_levy_measure_a_to_b": "a2b", "self.__integrate_levy_measure_a_to_inf": "a2inf",
                   "self.__integrate_levy_measure_inf_to_b": "inf2b"}},
        {"py": "_CGMYLevyMeasure.integrate_against_x", "coq": "cgmy_integrate_x_F", "pyargs": ["a", "b"],
         "args": [("sf", "SpecialFns"), ("rec", "R -> R -> R"), ("INF", R), ("c", R), ("g", R), ("m", R), ("y", R), ("a", R), ("b", R)], "ret": R, "attrs": _CG_ATTRS,
         "calls": {"self.integrate_against_x": "rec", "self.__integrate_h_to_inf_for_xx": "(cgmy_h_to_inf_for_xx sf INF)"}},
        {"py": "_CGMYLevyMeasure.integrate_against_xx", "coq": "cgmy_integrate_xx", "pyargs": ["a", "b"],
         "args": [("sf", "SpecialFns"), ("c", R), ("g", R), ("m", R), ("y", R), ("a", R), ("b", R)], "ret": R, "attrs": _CG_ATTRS,
         "subst": {"None": "tt", "[0]": "tt", "quad(self._xx_levy_measure, a, b, points=points, limit=100)[0]": "(sf_quad_xx sf a b)"}},
    ],
}

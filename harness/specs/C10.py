"""py2coq table for C10: drift conversions of LevyTriplet, real-axis pure-jump exponents, cumulants, simulation drifts.

Conventions
  * LevyRepresentation members are coded by their enum values as reals (ZERO=1, CENTER=2, ONEONE=3, TILDE=4); the hand model
    Model/LevyExponent.v uses an inductive type and the coding function rep_code;
  * `self.nu.integrate_against_x` is the argument m1 : R -> R -> R, `self.nu.jump_of_finite_variation()` the boolean fv,
    `np.inf` the real INF (so m1 (-INF) (-1) is the first moment of the left tail);
  * levy_exponent_pure_jump is translated for a REAL argument x (the Laplace exponent kappa(s) = psi(-i s) evaluates the
    pure-jump exponent at 1j * (-1j * s) = s); complex arithmetic is not modelled;
  * `self._process_drift = ...` / `a = ...` / `self._xi = ...` inside __init__ are translated with "assign_target".
"""

R = "R"
REP = {"LevyRepresentation.ZERO": "(IZR 1)", "LevyRepresentation.CENTER": "(IZR 2)", "LevyRepresentation.ONEONE": "(IZR 3)",
       "LevyRepresentation.TILDE": "(IZR 4)"}
_T_ARGS = [("INF", R), ("m1", "R -> R -> R"), ("fv", "bool"), ("a", R), ("rep", R)]
_T_ATTRS = {"self.a": "a", "self.representation": "rep"}
_T_CALLS = {"self.nu.integrate_against_x": "m1", "self.nu.jump_of_finite_variation": "fv",
            "self.canonical_drift": "canonical_drift INF m1 fv a rep"}

_HEM_P = {"params.intensity": "lam", "params.p": "p", "params.eta1": "eta1", "params.eta2": "eta2", "params.sigma": "sigma",
          "self.parameters": "tt"}
_HEM_ARGS = [("lam", R), ("p", R), ("eta1", R), ("eta2", R)]
_ME_P = {"params.intensity": "lam", "params.mu_j": "mu_j", "params.sigma_j": "sigma_j", "params.sigma": "sigma", "self.parameters": "tt",
         "self.parameters.mu_j": "mu_j", "self.parameters.intensity": "lam"}
_ME_ARGS = [("lam", R), ("mu_j", R), ("sigma_j", R)]
_VG_P = {"self.parameters.sigma": "sigma", "self.parameters.nu": "nu", "self.parameters.theta": "theta"}
_VG_ARGS = [("sigma", R), ("nu", R), ("theta", R)]
_CG_P = {"self.parameters": "tt", "p.c": "c", "p.g": "g", "p.m": "m", "p.y": "y", "p._CGammamY": "CGammamY", "p._GpowerY": "(Rpower g y)",
         "p._MpowerY": "(Rpower m y)", "self.parameters.c": "c", "self.parameters.g": "g", "self.parameters.m": "m", "self.parameters.y": "y"}


def _cum(cls, n, coq, args, attrs, drift=True, extra=None):
    d = {"py": f"{cls}.cumulant{n}", "coq": coq, "pyargs": ["t"], "args": ([("drift", R)] if drift else []) + args + [("t", R)], "ret": R,
         "attrs": dict(attrs, **{"self.drift": "drift"})}
    if extra:
        d.update(extra)
    return d


def _derived(cls, prefix, args, fields, calls=None):
    """cached constants of a Parameters class, once as __init__ leaves them and once as initialisation() re-derives them
    (the calibration sequence: deepcopy, setattr, initialisation(), rebuild the model)"""
    out = []
    names = [n for n, _ in args]
    for f in fields:
        out.append({"py": f"{cls}.__init__", "coq": f"{prefix}_init_{f.lstrip('_')}", "pyargs": names, "args": args, "ret": R,
                    "attr_tail": f"self.{f}", "calls": dict(calls or {})})
        out.append({"py": f"{cls}.initialisation", "coq": f"{prefix}_reinit_{f.lstrip('_')}", "pyargs": [], "args": args, "ret": R,
                    "attr_tail": f"self.{f}", "attrs": {f"self.{n}": n for n in names}, "calls": dict(calls or {})})
    return out


SPECS = {
    "GenC10Triplet": {
        "file": "rpylib/model/levymodel/levymodel.py", "dom": "R", "consts": dict(REP, **{"np.inf": "INF"}),
        "funcs": [
            {"py": "LevyTriplet.canonical_drift", "coq": "canonical_drift", "pyargs": [], "args": _T_ARGS, "ret": R,
             "attrs": _T_ATTRS, "calls": _T_CALLS, "on_raise": "(IZR 0)"},
            {"py": "LevyTriplet.zero_drift", "coq": "zero_drift", "pyargs": [], "args": _T_ARGS, "ret": R, "attrs": _T_ATTRS, "calls": _T_CALLS,
             "on_raise": "(IZR 0)"},
            {"py": "LevyTriplet.center_drift", "coq": "center_drift", "pyargs": [], "args": _T_ARGS, "ret": R, "attrs": _T_ATTRS, "calls": _T_CALLS},
            {"py": "LevyTriplet.tilde_drift", "coq": "tilde_drift", "pyargs": [], "args": _T_ARGS, "ret": R, "attrs": _T_ATTRS, "calls": _T_CALLS},
            # drift of the directly simulated NON-exponential Levy model (inherited by HEMModel, MertonModel, VG, CGMY)
            {"py": "LevyModel.process_drift", "coq": "levy_process_drift", "pyargs": [], "args": [("a", R)], "ret": R,
             "attrs": {"self.levy_triplet.a": "a"}},
        ],
    },
    "GenC10Hem": {
        "file": "rpylib/model/levymodel/mixed/hem.py", "dom": "R",
        "funcs": [
            {"py": "HEMModel.levy_exponent_pure_jump", "coq": "hem_pj", "pyargs": ["x"], "args": _HEM_ARGS + [("x", R)], "ret": R, "attrs": _HEM_P},
            {"py": "HEMModel.__init__", "coq": "hem_a", "pyargs": ["parameters"], "args": _HEM_ARGS, "ret": R, "assign_target": "a",
             "attrs": {"parameters.intensity": "lam", "parameters.p": "p", "parameters.eta1": "eta1", "parameters.eta2": "eta2"}},
            {"py": "HEMParameters.__init__", "coq": "hem_xi", "pyargs": ["sigma", "p", "eta1", "eta2", "intensity"],
             "args": [("p", R), ("eta1", R), ("eta2", R)], "ret": R, "assign_target": "self._xi"},
            {"py": "ExponentialOfHEMModel.__init__", "coq": "hem_process_drift", "pyargs": ["spot", "r", "d", "parameters"],
             "args": [("r", R), ("d", R), ("sigma", R), ("lam", R), ("eta1", R), ("xi", R)], "ret": R, "assign_target": "self._process_drift",
             "on_raise": "(IZR 0)",   # eta1 <= 1 raises ValueError: modelled as the value 0, the theorem assumes 1 < eta1
             "attrs": {"parameters.intensity": "lam", "parameters._xi": "xi", "parameters.sigma": "sigma", "parameters.eta1": "eta1"},
             },
            _cum("_HEMCumulant", 1, "hem_cumulant1", _HEM_ARGS, _HEM_P),
            _cum("_HEMCumulant", 2, "hem_cumulant2", [("sigma", R)] + _HEM_ARGS, _HEM_P, drift=False),
            _cum("_HEMCumulant", 4, "hem_cumulant4", _HEM_ARGS, _HEM_P, drift=False),
        ] + _derived("HEMParameters", "hem", [("sigma", R), ("p", R), ("eta1", R), ("eta2", R), ("intensity", R)], ["_xi"]),
    },
    "GenC10Merton": {
        "file": "rpylib/model/levymodel/mixed/merton.py", "dom": "R",
        "funcs": [
            {"py": "MertonModel.levy_exponent_pure_jump", "coq": "merton_pj", "pyargs": ["x"], "args": _ME_ARGS + [("x", R)], "ret": R, "attrs": _ME_P},
            {"py": "MertonModel.__init__", "coq": "merton_a", "pyargs": ["parameters"], "args": _ME_ARGS, "ret": R, "assign_target": "a",
             "attrs": {"parameters.intensity": "lam", "parameters.mu_j": "mu_j"}},
            {"py": "ExponentialOfMertonModel.__init__", "coq": "merton_process_drift", "pyargs": ["spot", "r", "d", "parameters"],
             "args": [("r", R), ("d", R), ("sigma0", R)] + _ME_ARGS, "ret": R, "assign_target": "self._process_drift",
             "attrs": {"parameters.sigma": "sigma0", "parameters.mu_j": "mu_j", "parameters.sigma_j": "sigma_j", "parameters.intensity": "lam"},
             },
            _cum("_MertonCumulant", 1, "merton_cumulant1", _ME_ARGS, _ME_P),
            _cum("_MertonCumulant", 2, "merton_cumulant2", [("sigma", R)] + _ME_ARGS, _ME_P, drift=False),
            _cum("_MertonCumulant", 4, "merton_cumulant4", _ME_ARGS, _ME_P, drift=False),
        ],
    },
    "GenC10Vg": {
        "file": "rpylib/model/levymodel/purejump/variancegamma.py", "dom": "R",
        "funcs": [
            {"py": "VarianceGammaModel.levy_exponent_pure_jump", "coq": "vg_pj", "pyargs": ["x"], "args": _VG_ARGS + [("x", R)], "ret": R, "attrs": _VG_P},
            _cum("_VGCumulant", 1, "vg_cumulant1", _VG_ARGS, _VG_P),
            _cum("_VGCumulant", 2, "vg_cumulant2", _VG_ARGS, _VG_P, drift=False),
            _cum("_VGCumulant", 4, "vg_cumulant4", _VG_ARGS, _VG_P, drift=False),
        ] + _derived("VGParameters", "vg", _VG_ARGS, ["_c", "_lambda_p", "_lambda_m"], {"np.sqrt": "sqrt"}),
    },
    "GenC10Cgmy": {
        "file": "rpylib/model/levymodel/purejump/cgmy.py", "dom": "R",
        "section": [("Gamma", "R -> R")],
        "calls": {"np.power": "Rpower", "sp.special.gamma": "Gamma"},
        "funcs": [
            {"py": "CGMYModel.levy_exponent_pure_jump", "coq": "cgmy_pj", "pyargs": ["x"],
             # aux_g / aux_m are assigned in one branch only; the translator joins branches through a tuple of all assigned
             # names, so they are also (unused) arguments: Model/LevyExponent.v passes 0 and proves they are irrelevant
             "args": [("c", R), ("g", R), ("m", R), ("y", R), ("CGammamY", R), ("aux_g", R), ("aux_m", R), ("x", R)], "ret": R, "attrs": _CG_P},
            _cum("_CGMYCumulant", 1, "cgmy_cumulant1", [("y", R)], _CG_P),
            _cum("_CGMYCumulant", 2, "cgmy_cumulant2", [("c", R), ("g", R), ("m", R), ("y", R)], _CG_P, drift=False),
            _cum("_CGMYCumulant", 4, "cgmy_cumulant4", [("c", R), ("g", R), ("m", R), ("y", R)], _CG_P, drift=False),
        ] + _derived("CGMYParameters", "cgmy", [("c", R), ("g", R), ("m", R), ("y", R)], ["_CGammamY", "_MpowerY", "_GpowerY"]),
    },
    "GenC10Bs": {
        "file": "rpylib/model/levymodel/mixed/blackscholes.py", "dom": "R",
        "funcs": [
            {"py": "BlackScholesModel.process_drift", "coq": "bs_process_drift", "pyargs": [], "args": [("r", R), ("d", R), ("sigma", R)], "ret": R,
             "attrs": {"self.r": "r", "self.d": "d", "self.parameters.sigma": "sigma"}},
            {"py": "PureDiffusiveModel.levy_exponent_pure_jump", "coq": "bs_pj", "pyargs": ["x"], "args": [("x", R)], "ret": R},
            {"py": "_BlackScholesCumulant.cumulant1", "coq": "bs_cumulant1", "pyargs": ["t"], "args": [("drift", R), ("t", R)], "ret": R,
             "attrs": {"self.drift": "drift"}},
            {"py": "_BlackScholesCumulant.cumulant2", "coq": "bs_cumulant2", "pyargs": ["t"], "args": [("variance", R), ("t", R)], "ret": R,
             "attrs": {"self.parameters.variance": "variance"}},
        ],
    },
    # jump samplers read pointwise (plug-in harness/py2coq_c10.py): the k-th generator call is the k-th uniform / normal argument
    "GenC10Jump": {
        "file": "rpylib/model/levymodel/mixed/hem.py", "dom": "R", "ext": "py2coq_c10",
        "funcs": [
            {"py": "HEMModel.jump_increment", "coq": "hem_jump", "pyargs": ["n"],
             "args": [("p", R), ("eta1", R), ("eta2", R), ("u", R), ("v", R)], "ret": R,
             "draws": [("np.random.random", "u"), ("np.random.random", "v")],
             "attrs": {"self.parameters.p": "p", "self.parameters.eta1": "eta1", "self.parameters.eta2": "eta2"}},
            {"file": "rpylib/model/levymodel/mixed/merton.py", "py": "MertonModel.jump_increment", "coq": "merton_jump", "pyargs": ["n"],
             "args": [("mu_j", R), ("sigma_j", R), ("g", R)], "ret": R, "draws": [("np.random.normal", "g")],
             "attrs": {"self.parameters.mu_j": "mu_j", "self.parameters.sigma_j": "sigma_j"}},
        ],
    },
    # wave 6: the exponent for a COMPLEX argument, translated over C = R * R (plug-in harness/py2coq_c10cx.py, Base/CxPair.v):
    # LevyModel.levy_exponent itself (with levy_exponent_pure_jump as a function argument) and the pure-jump exponents of HEM and VG
    "GenC10Cx": {
        "file": "rpylib/model/levymodel/levymodel.py", "dom": "R", "ext": "py2coq_c10cx",
        "header": "From Coq Require Import ZArith Reals Bool List.\nFrom Coquelicot Require Import Coquelicot.\n"
                  "From RV Require Import Base.RB Base.CxPair.\nOpen Scope R_scope.\n",
        "funcs": [
            {"py": "LevyModel.levy_exponent", "coq": "levy_exponent_c", "pyargs": ["x"], "complex": True,
             "args": [("a0", R), ("sigma0", R), ("pj", "C -> C"), ("x", "C")], "ret": "C",
             "attrs": {"self._original_drift": "a0", "self.levy_triplet.sigma": "sigma0"},
             "ccalls": {"self.levy_exponent_pure_jump": "pj"}},
            {"file": "rpylib/model/levymodel/mixed/hem.py", "py": "HEMModel.levy_exponent_pure_jump", "coq": "hem_pj_c", "pyargs": ["x"],
             "complex": True, "args": _HEM_ARGS + [("x", "C")], "ret": "C", "attrs": _HEM_P},
            {"file": "rpylib/model/levymodel/purejump/variancegamma.py", "py": "VarianceGammaModel.levy_exponent_pure_jump", "coq": "vg_pj_c",
             "pyargs": ["x"], "complex": True, "args": _VG_ARGS + [("x", "C")], "ret": "C", "attrs": _VG_P},
        ],
    },
    # wave 6 (seeded change C10_g): exception paths of the conversions (does the call raise?) and set_representation as a state
    # transformer with exceptions whose assignments are executed in SOURCE ORDER (plug-in harness/py2coq_c10set.py)
    "GenC10SetRep": {
        "file": "rpylib/model/levymodel/levymodel.py", "dom": "R", "consts": dict(REP, **{"np.inf": "INF"}), "ext": "py2coq_c10set",
        "header": "From Coq Require Import ZArith Reals Bool List.\nFrom RV Require Import Base.RB Gen.GenC10Triplet.\nOpen Scope R_scope.\n",
        "funcs": [
            {"py": "LevyTriplet.canonical_drift", "coq": "canonical_drift_raises", "pyargs": [], "args": _T_ARGS, "ret": "bool",
             "attrs": _T_ATTRS, "calls": _T_CALLS, "on_raise": "true", "raises_mode": True},
        ] + [
            {"py": f"LevyTriplet.{m}", "coq": f"{m}_raises", "pyargs": [], "args": _T_ARGS, "ret": "bool",
             "attrs": _T_ATTRS, "calls": _T_CALLS, "on_raise": "true", "raises_mode": True,
             "raising_calls": {"self.canonical_drift": ("canonical_drift INF m1 fv a rep", "canonical_drift_raises INF m1 fv a rep")}}
            for m in ("zero_drift", "center_drift", "tilde_drift")
        ] + [
            {"py": "LevyTriplet.set_representation", "coq": "set_representation_gen", "pyargs": ["representation"],
             "emitter": "py2coq_c10set:emit_set_representation",
             "defaults_of": {"LevyTriplet.__init__": {"a": "0", "representation": "LevyRepresentation.ONEONE"}},
             "methods": {m: (m, f"{m}_raises") for m in ("canonical_drift", "zero_drift", "center_drift", "tilde_drift")}},
        ],
    },
    "GenC10Exp": {
        "file": "rpylib/model/levymodel/exponentialoflevymodel.py", "dom": "R",
        "class_decorators": {"ExponentialOfLevyModel": ["MomentsDecorator()"]},
        "funcs": [
            {"py": "ExponentialOfLevyModel.drift", "coq": "exp_model_drift", "pyargs": ["t", "x"], "defaults": {"t": "0", "x": "0"}, "args": [("r", R), ("d", R), ("omega", R)], "ret": R,
             "attrs": {"self.r": "r", "self.d": "d", "self.omega": "omega"}},
        ],
    },
}

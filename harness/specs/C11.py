"""py2coq table for C11 (rpylib/distribution/levycopula.py): the Clayton 2-d conditional distribution and its closed-form
inverse are regenerated from the source on every run (module RV.Gen.GenC11Clayton); Proofs/C11_Gen.v proves that the
generated definitions ARE the hand models clayton_cond / clayton_inv of Model/Copula.v (for all arguments), so every theorem
about those models is a theorem about the current source text.

Domain R: np.power -> Rpower, i.e. finite non-zero bases (the values np.power(0, theta) = 0 / infinite arguments are the
business of the extended hand model clayton_cond_x, tied by Interval cases).  x is the length-1 array of the code (x[0] -> x0);
`np.array([res])` is the identity on the model side; np.where / np.sign are defined in the generated module's header."""

_CL = [("theta", "R"), ("eta", "R")]
_AT = {"self.eta": "eta", "self.theta": "theta"}

SPECS = {
    "GenC11Clayton": {
        "file": "rpylib/distribution/levycopula.py",
        "dom": "R",
        "calls": {"np.power": "Rpower"},
        "header": ("From Coq Require Import ZArith Reals Bool List.\nFrom RV Require Import Base.RB.\nOpen Scope R_scope.\n"
                   "Definition np_where (c : bool) (a b : R) : R := if c then a else b.\n"
                   "Definition np_sign (x : R) : R := if Rltb x 0 then -1 else if Rltb 0 x then 1 else 0.\n"),
        "funcs": [
            {"py": "ClaytonCopula._condition_distribution_2d", "coq": "gen_clayton_cond", "pyargs": ["eps", "x"],
             "args": _CL + [("eps", "R"), ("x0", "R")], "ret": "R", "attrs": _AT, "tuple_params": {"x": ["x0"]},
             "subst": {"np.array([res])": "res"}},
            {"py": "ClaytonCopula._inverse_conditional_distribution_2d", "coq": "gen_clayton_inv", "pyargs": ["eps", "x"],
             "args": _CL + [("eps", "R"), ("x", "R")], "ret": "R", "attrs": _AT, "nested_defs": True,
             "calls": {"np.where": "np_where", "np.sign": "np_sign", "np.abs": "Rabs"}},
        ],
    },
}

"""py2coq table for C12: the hard-coded rectangle-mass formulas of LevyCopulaModel
(rpylib/model/levycopulamodel.py), translated over an abstract `Num` N (Section variable; coordinates are
`ext N`) so that the SAME generated term is instantiated over extended rationals (to run) and
extended reals (to prove).  Plug-in: harness/py2coq_ext_copula.py."""

HEADER = ("From Coq Require Import List Arith Bool.\nFrom RV Require Import Base.ExtNum.\nImport ListNotations.\n"
          "Set Implicit Arguments.\n")

SECTION = [
    ("N", "Num"),
    ("U1", "nat -> ext N -> N"),            # self.marginal_tail_integral(i, x)
    ("UI", "idx -> list (ext N) -> N"),     # self.margin_tail_integral(indices, x)
]
ABSDOM = {"zero": "(n0 N)", "add": "(nadd N)", "sub": "(nsub N)", "neg": "(nopp N)", "xdflt": "(Fin (n0 N))"}

ATTRS = {"self.marginal_tail_integral": "U1", "self.margin_tail_integral": "UI"}

SPECS = {
    "GenC12Mass": {
        "file": "rpylib/model/levycopulamodel.py",
        "dom": "Q",                       # unused: the plug-in replaces the operator table by tadd/tsub/tzero
        "header": HEADER,
        "ext": "py2coq_ext_copula",
        "section": SECTION,
        "absdom": ABSDOM,
        "calls": {"self._mass_1d": "mass_1d", "self._mass_2d": "mass_2d"},
        "kwparams": {"self._mass_2d": ["a", "b", "indices"]},
        "funcs": [
            {"py": "LevyCopulaModel._mass_1d", "coq": "mass_1d", "pyargs": ["a", "b", "index"],
             "args": [("a", "ext N"), ("b", "ext N"), ("index", "nat")], "ret": "N", "attrs": ATTRS},
            {"py": "LevyCopulaModel._mass_2d", "coq": "mass_2d", "pyargs": ["a", "b", "indices"], "defaults": {"indices": "None"},
             "args": [("a", "list (ext N)"), ("b", "list (ext N)"), ("indices", "idx")], "ret": "N", "attrs": ATTRS,
             "xlists": ["a", "b"], "ilists": ["indices"]},
            {"py": "LevyCopulaModel._mass_3d", "coq": "mass_3d", "pyargs": ["a", "b", "indices"], "defaults": {"indices": "None"},
             "args": [("a", "list (ext N)"), ("b", "list (ext N)"), ("indices", "idx")], "ret": "N", "attrs": ATTRS,
             "xlists": ["a", "b"], "ilists": ["indices"]},
        ],
    },
    # inverse_tail_integral: early returns + call of the (specified) root finder; emitter harness/py2coq_c12inv.py
    "GenC12Inverse": {
        "file": "rpylib/model/levycopulamodel.py",
        "dom": "Q",
        "header": ("From Coq Require Import List Arith Bool QArith.\nFrom RV Require Import Base.ExtNum.\nImport ListNotations.\n"
                   "Set Implicit Arguments.\n"),
        "section": [("N", "Num"), ("ofQ", "Q -> N"),            # ofQ: exact value of a float literal
                    ("U1", "nat -> ext N -> N"),                # self.marginal_tail_integral(i, x)
                    ("toms748", "(N -> N) -> N -> N -> N -> N")],   # scipy.optimize.toms748(f, a, b, xtol): specified, not modelled
        "funcs": [
            {"py": "LevyCopulaModel.inverse_tail_integral", "coq": "inverse_tail_integral", "pyargs": ["i", "x"],
             "args": [("i", "nat"), ("x", "N")], "ret": "N", "emitter": "py2coq_c12inv:emit_inverse"},
        ],
    },
}

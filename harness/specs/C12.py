"""py2coq table for C12: the hard-coded rectangle-mass formulas of LevyCopulaModel
(rpylib/model/levycopulamodel.py), translated over an abstract number type T and an abstract
coordinate type X (Section variables) so that the SAME generated term is instantiated over
extended rationals (to run) and extended reals (to prove).  Plug-in: harness/py2coq_ext_copula.py."""

HEADER = ("From Coq Require Import List Arith Bool.\nFrom RV Require Import Base.ExtNum.\nImport ListNotations.\n"
          "Set Implicit Arguments.\n")

SECTION = [
    ("X", "Type"), ("T", "Type"),
    ("xlt0", "X -> bool"), ("xgt0", "X -> bool"), ("xge0", "X -> bool"), ("xdflt", "X"),
    ("tzero", "T"), ("tadd", "T -> T -> T"), ("tsub", "T -> T -> T"),
    ("U1", "nat -> X -> T"),            # self.marginal_tail_integral(i, x)
    ("UI", "idx -> list X -> T"),       # self.margin_tail_integral(indices, x)
]

ATTRS = {"self.marginal_tail_integral": "U1", "self.margin_tail_integral": "UI"}

SPECS = {
    "GenC12Mass": {
        "file": "rpylib/model/levycopulamodel.py",
        "dom": "Q",                       # unused: the plug-in replaces the operator table by tadd/tsub/tzero
        "header": HEADER,
        "ext": "py2coq_ext_copula",
        "section": SECTION,
        "calls": {"self._mass_1d": "mass_1d", "self._mass_2d": "mass_2d"},
        "kwparams": {"self._mass_2d": ["a", "b", "indices"]},
        "funcs": [
            {"py": "LevyCopulaModel._mass_1d", "coq": "mass_1d", "pyargs": ["a", "b", "index"],
             "args": [("a", "X"), ("b", "X"), ("index", "nat")], "ret": "T", "attrs": ATTRS},
            {"py": "LevyCopulaModel._mass_2d", "coq": "mass_2d", "pyargs": ["a", "b", "indices"],
             "args": [("a", "list X"), ("b", "list X"), ("indices", "idx")], "ret": "T", "attrs": ATTRS,
             "xlists": ["a", "b"], "ilists": ["indices"]},
            {"py": "LevyCopulaModel._mass_3d", "coq": "mass_3d", "pyargs": ["a", "b", "indices"],
             "args": [("a", "list X"), ("b", "list X"), ("indices", "idx")], "ret": "T", "attrs": ATTRS,
             "xlists": ["a", "b"], "ilists": ["indices"]},
        ],
    },
}

"""py2coq table for C14 (rpylib/distribution/pairing.py)."""

Z2 = [("x", "Z"), ("y", "Z")]

SPECS = {
    "GenPairing": {
        "file": "rpylib/distribution/pairing.py",
        "dom": "Z",
        "calls": {"mapping_to_z": "mapping_to_z", "projection_to_z": "projection_to_z"},
        "funcs": [
            {"py": "Cantor.pairing2d", "coq": "cantor_pairing2d", "args": Z2, "ret": "Z", "pyargs": ["x", "y"]},
            {"py": "Cantor.projection2d", "coq": "cantor_projection2d", "args": [("z", "Z")], "ret": "Z * Z", "pyargs": ["z"]},
            {"py": "RosenbergStrong.pairing2d", "coq": "rs_pairing2d", "args": Z2, "ret": "Z", "pyargs": ["x", "y"]},
            {"py": "RosenbergStrong.projection2d", "coq": "rs_projection2d", "args": [("z", "Z")], "ret": "Z * Z", "pyargs": ["z"]},
            {"py": "Szudzik.pairing2d", "coq": "szudzik_pairing2d", "args": Z2, "ret": "Z", "pyargs": ["x", "y"]},
            {"py": "Szudzik.projection2d", "coq": "szudzik_projection2d", "args": [("z", "Z")], "ret": "Z * Z", "pyargs": ["z"]},
            {"py": "PepisKalmar.pairing2d", "coq": "pk_pairing2d", "args": Z2, "ret": "Z", "pyargs": ["x", "y"]},
            {"py": "mapping_to_z", "coq": "mapping_to_z", "args": [("n", "Z")], "ret": "Z", "pyargs": ["n"]},
            {"py": "projection_to_z", "coq": "projection_to_z", "args": [("z", "Z")], "ret": "Z", "pyargs": ["z"]},
            {"py": "PairingToZ1d._projection_with_switch_to_right", "coq": "z1d_proj_right", "pyargs": ["x"],
             "args": [("left", "Z"), ("x", "Z")], "ret": "Z", "attrs": {"self.left": "left"}},
            {"py": "PairingToZ1d._projection_with_switch_to_left", "coq": "z1d_proj_left", "pyargs": ["x"],
             "args": [("right", "Z"), ("x", "Z")], "ret": "Z", "attrs": {"self.right": "right"}},
            {"py": "PairingToZ1d.pair", "coq": "z1d_pair", "pyargs": ["x"],
             "args": [("left", "Z"), ("right", "Z"), ("omit", "Z"), ("x", "Z")], "ret": "Z",
             "attrs": {"self.left": "left", "self.right": "right", "self._omitting_zero": "omit"}},
        ],
    },
}

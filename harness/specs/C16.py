"""py2coq table for C16: the discount factor of the rate models
(rpylib/model/levydrivensde/levyforwardmodel.py, levylibormodel.py) -> RV.Gen.GenC16Rates.
np.searchsorted / integer subscripts / np.prod comprehension are the primitives of Base/QArr.v."""

HEADER = ("From Coq Require Import ZArith QArith Qminmax Qabs Bool List.\n"
          "From RV Require Import Base.QB Base.QArr.\nOpen Scope Q_scope.\n")


def _df(py, coq, file):
    return {"py": py, "coq": coq, "file": file, "pyargs": ["t"],
            "args": [("tenors", "list Q"), ("x0", "list Q"), ("t", "Q")], "ret": "Q",
            "int_names": ["pos"],
            "attrs": {"self.tenors": "tenors"},
            "arrays": {"self.tenors": "tenors", "self.x0": "x0"},
            "calls": {"np.searchsorted": "searchsorted"}}


SPECS = {
    "GenC16Rates": {
        "file": "rpylib/model/levydrivensde/levyforwardmodel.py",
        "dom": "Q",
        "header": HEADER,
        "funcs": [
            _df("LevyForwardModel.df", "forward_df", "rpylib/model/levydrivensde/levyforwardmodel.py"),
            _df("LevyLiborModel.df", "libor_df", "rpylib/model/levydrivensde/levylibormodel.py"),
        ],
    },
}

"""py2coq tables for C16.
GenC16Rates : the discount factor of the rate models (levyforwardmodel.py, levylibormodel.py); np.searchsorted / integer
              subscripts / np.prod comprehension are the primitives of Base/QArr.v.
GenC16Coef  : the coefficient functions of the rate models (LiborSDEFunction / ForwardMarketSDEFunction sigma(t) and
              __call__ = sigma(t) * x) and the pointwise lines of MarkovChainLevyLiborModel.sde_drift, read pointwise at
              row i by the plug-in harness/py2coq_c16.py.
GenC16Df    : df of every other model class (exponential of a Levy process, Levy model, Levy-driven SDE model, Levy copula
              model, copula series, Process), domain R."""

HEADER = ("From Coq Require Import ZArith QArith Qminmax Qabs Bool List.\n"
          "From RV Require Import Base.QB Base.QArr.\nOpen Scope Q_scope.\n")

SDE = "rpylib/model/levydrivensde/levydrivensde.py"
MCSDE = "rpylib/process/markovchain/markovchainsde.py"
PW = "py2coq_c16:emit_rhs"


def _df(py, coq, file):
    return {"py": py, "coq": coq, "file": file, "pyargs": ["t"],
            "args": [("tenors", "list Q"), ("x0", "list Q"), ("t", "Q")], "ret": "Q",
            "int_names": ["pos"],
            "attrs": {"self.tenors": "tenors"},
            "arrays": {"self.tenors": "tenors", "self.x0": "x0"},
            "calls": {"np.searchsorted": "searchsorted"}}


def _sigma(py, coq):
    return {"py": py, "coq": coq, "pyargs": ["t"],
            "args": [("tenors", "list Q"), ("sij", "Q"), ("i", "Z"), ("t", "Q")], "ret": "Q",
            "attrs": {"self._sigma": "sij"}, "arrays": {"self.tenors": "tenors"}, "rows": {"self.tenors": "tenors"},
            "calls": {"np.minimum": "Qminb", "np.maximum": "Qmaxb"}}


def _call(py, coq, sigma):
    return {"py": py, "coq": coq, "pyargs": ["t", "x"],
            "args": [("tenors", "list Q"), ("sij", "Q"), ("i", "Z"), ("t", "Q"), ("x", "Q")], "ret": "Q",
            "calls": {"self.sigma": f"({sigma} tenors sij i)"}}


SPECS = {
    "GenC16Rates": {
        "file": "rpylib/model/levydrivensde/levyforwardmodel.py",
        "dom": "Q",
        "header": HEADER,
        "funcs": [
            _df("LevyForwardModel.df", "forward_df", "rpylib/model/levydrivensde/levyforwardmodel.py"),
            _df("LevyLiborModel.df", "libor_df", "rpylib/model/levydrivensde/levylibormodel.py"),
        ],
    },
    "GenC16Coef": {
        "file": SDE,
        "dom": "Q",
        "header": HEADER,
        "ext": "py2coq_c16",
        "funcs": [
            _sigma("LiborSDEFunction.sigma", "libor_sigma_entry"),
            _call("LiborSDEFunction.__call__", "libor_a_entry", "libor_sigma_entry"),
            _sigma("ForwardMarketSDEFunction.sigma", "fwd_sigma_entry"),
            _call("ForwardMarketSDEFunction.__call__", "fwd_a_entry", "fwd_sigma_entry"),
            # MarkovChainLevyLiborModel.sde_drift, the pointwise lines (the matrix part sszz[:, 1:] @ omegas[1:] is Model/RateSDE.v)
            {"emitter": PW, "file": MCSDE, "py": "MarkovChainLevyLiborModel.sde_drift", "target": "x_delta", "coq": "libor_x_delta",
             "args": [("x", "Q"), ("delta", "Q")], "ret": "Q", "attrs": {"self.model.deltas": "delta"}, "rows": {}},
            {"emitter": PW, "file": MCSDE, "py": "MarkovChainLevyLiborModel.sde_drift", "target": "omegas", "coq": "libor_omega",
             "args": [("x_delta", "Q")], "ret": "Q", "rows": {}},
            {"emitter": PW, "file": MCSDE, "py": "MarkovChainLevyLiborModel.sde_drift", "target": "return", "coq": "libor_drift_entry",
             "args": [("x", "Q"), ("drift", "Q")], "ret": "Q", "rows": {}},
        ],
    },
    "GenC16Df": {
        "file": "rpylib/model/levymodel/exponentialoflevymodel.py",
        "dom": "R",
        "class_decorators": {"ExponentialOfLevyModel": ["MomentsDecorator()"]},
        "funcs": [
            {"kind": "return_rhs", "py": "ExponentialOfLevyModel.df", "coq": "exp_df", "args": [("r", "R"), ("t", "R")],
             "ret": "R", "attrs": {"self.r": "r"}},
            {"file": "rpylib/model/levymodel/levymodel.py", "py": "LevyModel.df", "coq": "levy_df", "pyargs": ["t"],
             "args": [("t", "R")], "ret": "R"},
            {"file": SDE, "py": "LevyDrivenSDEModel.df", "coq": "sde_df", "pyargs": ["t"], "args": [("t", "R")], "ret": "R"},
            {"file": "rpylib/model/levycopulamodel.py", "py": "LevyCopulaModel.df", "coq": "copula_df", "pyargs": ["t"],
             "args": [("df0", "R -> R"), ("t", "R")], "ret": "R", "calls": {"self.models[0].df": "df0"}},
            {"file": "rpylib/process/levycopulaseries.py", "py": "LevyCopula2dSeriesRepresentation.df", "coq": "series_df", "pyargs": ["t"],
             "args": [("df0", "R -> R"), ("t", "R")], "ret": "R", "calls": {"self.model1.df": "df0"}},
            {"file": "rpylib/process/process.py", "py": "Process.df", "coq": "process_df", "pyargs": ["t"],
             "args": [("df0", "R -> R"), ("t", "R")], "ret": "R", "calls": {"self.model.df": "df0"}},
        ],
    },
}

"""py2coq table for C17 (rpylib/product/payoff.py, product.py): the payoff `evaluate` bodies and
Product.__call__ are regenerated from the source on every run (module RV.Gen.GenC17Payoff)."""

U = ("underlying", "Q")

SPECS = {
    "GenC17Payoff": {
        "file": "rpylib/product/payoff.py",
        "dom": "Q",
        "calls": {"np.maximum": "Qmaxb"},
        "funcs": [
            {"py": "Forward.evaluate", "coq": "forward_eval", "pyargs": ["underlying"],
             "args": [("strike", "Q"), U], "ret": "Q", "attrs": {"self.strike": "strike"}},
            # Vanilla.__init__ sets _call_put = 1 (CALL) / -1 (PUT); it is a parameter of the model
            {"py": "Vanilla.evaluate", "coq": "vanilla_eval", "pyargs": ["underlying"],
             "args": [("cp", "Q"), ("strike", "Q"), U], "ret": "Q",
             "attrs": {"self.strike": "strike", "self._call_put": "cp"}},
            {"py": "CallSpread.evaluate", "coq": "callspread_eval", "pyargs": ["underlying"],
             "args": [("strike1", "Q"), ("strike2", "Q"), U], "ret": "Q",
             "attrs": {"self.strike1": "strike1", "self.strike2": "strike2"}},
            # Butterfly.__init__: self.strikes = np.array([strike1, strike2, strike3])
            {"py": "Butterfly.evaluate", "coq": "butterfly_eval", "pyargs": ["underlying"],
             "args": [("strike1", "Q"), ("strike2", "Q"), ("strike3", "Q"), U], "ret": "Q",
             "vectors": {"self.strikes": ["strike1", "strike2", "strike3"]}},
            {"py": "Digital.evaluate", "coq": "digital_eval", "pyargs": ["underlying"],
             "args": [("is_call", "bool"), ("strike", "Q"), U], "ret": "Q",
             "attrs": {"self.strike": "strike"},
             "bexprs": {"self.payoff_type == PayoffType.CALL": "is_call"}},
            # Barrier: self.vanilla = Vanilla(strike, payoff_type); barrier_event is the object's flag
            {"py": "Barrier._evaluate_knockout", "coq": "knockout_eval", "pyargs": ["underlying"],
             "args": [("barrier_event", "bool"), ("cp", "Q"), ("strike", "Q"), U], "ret": "Q",
             "attrs": {"self.barrier_event": "barrier_event"},
             "calls": {"self.vanilla.evaluate": "vanilla_eval cp strike"}},
            {"py": "Barrier._evaluate_knockin", "coq": "knockin_eval", "pyargs": ["underlying"],
             "args": [("barrier_event", "bool"), ("cp", "Q"), ("strike", "Q"), U], "ret": "Q",
             "attrs": {"self.barrier_event": "barrier_event"},
             "calls": {"self.vanilla.evaluate": "vanilla_eval cp strike"}},
            # Product.__call__: notional * payoff(underlying)
            {"py": "Product.__call__", "coq": "product_call", "file": "rpylib/product/product.py", "pyargs": ["underlying"],
             "args": [("notional", "Q"), ("payoff", "Q -> Q"), U], "ret": "Q",
             "attrs": {"self.notional": "notional"}, "calls": {"self.payoff": "payoff"}},
        ],
    },
}

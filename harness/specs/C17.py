"""py2coq table for C17 (rpylib/product/payoff.py, product.py): the payoff `evaluate` bodies and
Product.__call__ are regenerated from the source on every run (module RV.Gen.GenC17Payoff)."""

U = ("underlying", "Q")

SPECS = {
    "GenC17Payoff": {
        "file": "rpylib/product/payoff.py",
        "dom": "Q",
        "calls": {"np.maximum": "Qmaxb"},
        "funcs": [
            {"py": "Forward.evaluate", "coq": "forward_eval", "pyargs": ["underlying"],
             "args": [("strike", "Q"), U], "ret": "Q", "attrs": {"self.strike": "strike"}},
            # Vanilla.__init__ sets _call_put = 1 (CALL) / -1 (PUT); it is a parameter of the model
            {"py": "Vanilla.evaluate", "coq": "vanilla_eval", "pyargs": ["underlying"],
             "args": [("cp", "Q"), ("strike", "Q"), U], "ret": "Q",
             "attrs": {"self.strike": "strike", "self._call_put": "cp"}},
            {"py": "CallSpread.evaluate", "coq": "callspread_eval", "pyargs": ["underlying"],
             "args": [("strike1", "Q"), ("strike2", "Q"), U], "ret": "Q",
             "attrs": {"self.strike1": "strike1", "self.strike2": "strike2"}},
            # Butterfly.__init__: self.strikes = np.array([strike1, strike2, strike3])
            {"py": "Butterfly.evaluate", "coq": "butterfly_eval", "pyargs": ["underlying"],
             "args": [("strike1", "Q"), ("strike2", "Q"), ("strike3", "Q"), U], "ret": "Q",
             "vectors": {"self.strikes": ["strike1", "strike2", "strike3"]}},
            {"py": "Digital.evaluate", "coq": "digital_eval", "pyargs": ["underlying"],
             "args": [("is_call", "bool"), ("strike", "Q"), U], "ret": "Q",
             "attrs": {"self.strike": "strike"},
             "bexprs": {"self.payoff_type == PayoffType.CALL": "is_call"}},
            # Barrier: self.vanilla = Vanilla(strike, payoff_type); barrier_event is the object's flag
            {"py": "Barrier._evaluate_knockout", "coq": "knockout_eval", "pyargs": ["underlying"],
             "args": [("barrier_event", "bool"), ("cp", "Q"), ("strike", "Q"), U], "ret": "Q",
             "attrs": {"self.barrier_event": "barrier_event"},
             "calls": {"self.vanilla.evaluate": "vanilla_eval cp strike"}},
            {"py": "Barrier._evaluate_knockin", "coq": "knockin_eval", "pyargs": ["underlying"],
             "args": [("barrier_event", "bool"), ("cp", "Q"), ("strike", "Q"), U], "ret": "Q",
             "attrs": {"self.barrier_event": "barrier_event"},
             "calls": {"self.vanilla.evaluate": "vanilla_eval cp strike"}},
            # Product.__call__: notional * payoff(underlying)
            {"py": "Product.__call__", "coq": "product_call", "file": "rpylib/product/product.py", "pyargs": ["underlying"],
             "args": [("notional", "Q"), ("payoff", "Q -> Q"), U], "ret": "Q",
             "attrs": {"self.notional": "notional"}, "calls": {"self.payoff": "payoff"}},
        ],
    },
}

# ---- wave 5: the multi-underlying / rates / credit payoffs (never instantiated before).  Vector sub-expressions are bound to the
# list primitives of Model/PayoffVec.v through `subst` (exact source text: any edit of such a sub-expression makes the translation
# fail closed); the scalar skeleton (max / min / conditional / products with the factor) is translated from the source.
RATES = "(accruals deltas underlying_rates)"
HEADER_X = ("From Coq Require Import ZArith QArith Qminmax Qabs Bool List.\nFrom RV Require Import Base.QB Model.PayoffVec.\n"
            "Import ListNotations.\nOpen Scope Q_scope.\n")
SPECS["GenC17Exotic"] = {
    "file": "rpylib/product/payoff.py",
    "dom": "Q",
    "header": HEADER_X,
    "calls": {"np.maximum": "Qmaxb", "np.sum": "qsum"},
    "funcs": [
        {"py": "FixedCoupon.evaluate", "coq": "fixedcoupon_eval", "pyargs": ["underlying"],
         "args": [("coupon", "Q"), U], "ret": "Q", "attrs": {"self.coupon": "coupon"}},
        # Rainbow.__init__: self._weights = np.flip(np.array(weights)); _eps = +1 (CALL) / -1 (PUT)
        {"py": "Rainbow.evaluate", "coq": "rainbow_eval", "pyargs": ["underlying"],
         "args": [("eps", "Q"), ("weights_flipped", "list Q"), ("strike", "Q"), ("underlying", "list Q")], "ret": "Q",
         "attrs": {"self._eps": "eps", "self.strike": "strike"},
         "subst": {"np.sort(underlying)": "(qsort underlying)",
                   "sum(self._weights * sorted_underlying)": "(dotq weights_flipped sorted_underlying)"}},
        # CDS.__init__: _T = maturity, _r = -log(df(1)), _df_T = df(maturity); the discounting function is a parameter
        {"py": "CDS.evaluate", "coq": "cds_eval", "pyargs": ["default_time"],
         "args": [("recovery_rate", "Q"), ("spread", "Q"), ("T", "Q"), ("r", "Q"), ("df_T", "Q"), ("df", "Q -> Q"), ("default_time", "Q")],
         "ret": "Q",
         "attrs": {"self.recovery_rate": "recovery_rate", "self.spread": "spread", "self._T": "T", "self._r": "r", "self._df_T": "df_T"},
         "calls": {"self._df": "df"}},
        {"py": "Bond.evaluate", "coq": "bond_eval", "pyargs": ["underlying_rates"],
         "args": [("deltas", "list Q"), ("factor", "Q"), ("underlying_rates", "list Q")], "ret": "Q",
         "attrs": {"self._factor": "factor"},
         "subst": {"np.prod(1 + self.deltas * underlying_rates)": f"(qprod {RATES})"}},
        {"py": "Cap.evaluate", "coq": "cap_eval", "pyargs": ["underlying_rates"],
         "args": [("deltas", "list Q"), ("strike", "Q"), ("factor", "Q"), ("underlying_rates", "list Q")], "ret": "Q",
         "attrs": {"self._factor": "factor"},
         "subst": {"np.cumprod(1 + self.deltas * underlying_rates)": f"(cumprod {RATES})",
                   "self.deltas * np.maximum(underlying_rates - self.strike, 0) * adj[::-1]": "(cap_terms deltas strike underlying_rates (rev adj))"}},
        # Swaption.__init__: _eps = 1 (PAYER) / -1 (RECEIVER)
        {"py": "Swaption.evaluate", "coq": "swaption_eval", "pyargs": ["underlying_rates"],
         "args": [("eps", "Q"), ("deltas", "list Q"), ("strike", "Q"), ("factor", "Q"), ("underlying_rates", "list Q")], "ret": "Q",
         "attrs": {"self._eps": "eps", "self.strike": "strike", "self._factor": "factor"},
         "subst": {"np.cumprod(1 + self.deltas * underlying_rates)": f"(cumprod {RATES})",
                   "aux[-1]": "(last aux 0)",
                   "np.sum(self.deltas * aux[::-1])": "(dotq deltas (rev aux))"}},
    ],
}

"""py2coq table for C18 (COS / FFT / Black-Scholes closed form, VG and CGMY exponents), domain R."""

COS = "rpylib/numerical/cosmethod.py"
FFT = "rpylib/numerical/fft.py"
BS = "rpylib/numerical/closedform/cfblackscholes.py"
VG = "rpylib/model/levymodel/purejump/variancegamma.py"
CGMY = "rpylib/model/levymodel/purejump/cgmy.py"

R5 = [("k", "R"), ("a", "R"), ("b", "R"), ("c", "R"), ("d", "R")]
HEADER = """From Coq Require Import ZArith Reals Bool List.
From RV Require Import Base.RB.
Open Scope R_scope.
(* ds = np.zeros(n); ds[0] = 1  in FFTPricer._call_prices, read at index j *)
Definition kron (j : nat) : R := match j with O => 1 | S _ => 0 end.
"""

VG_ARGS = [("sigma", "R"), ("nu", "R"), ("theta", "R")]

SPECS = {
    "GenC18Cos": {
        "file": COS,
        "dom": "R",
        "header": HEADER,
        "consts": {"np.pi": "PI"},
        # uninit: the content of the uninitialised cells np.divide(..., where=mask) leaves where the mask is False
        # Phi   : scipy.stats.norm.cdf
        "section": [("uninit", "R"), ("Phi", "R -> R")],
        "funcs": [
            {"py": "COSPricer.xi", "coq": "cos_xi", "pyargs": ["k", "a", "b", "c", "d"], "args": R5, "ret": "R", "nested_defs": True},
            {"py": "COSPricer.psi", "coq": "cos_psi", "pyargs": ["ks", "a", "b", "c", "d"],
             "args": [("ks", "R"), ("a", "R"), ("b", "R"), ("c", "R"), ("d", "R")], "ret": "R",
             "elementwise": {"arrays": ["ks"], "uninit": "uninit"}},
            {"py": "COSPricer.u_put", "coq": "cos_u_put", "pyargs": ["k", "a", "b"], "args": [("k", "R"), ("a", "R"), ("b", "R")], "ret": "R",
             "calls": {"COSPricer.xi": "cos_xi", "COSPricer.psi": "cos_psi"}},
            {"kind": "assign_rhs", "py": "COSPricer.digital", "target": "vk", "coq": "cos_digital_vk",
             "args": [("k", "R"), ("a", "R"), ("b", "R")], "ret": "R", "calls": {"self.psi": "cos_psi"}},
            {"kind": "return_rhs", "py": "COSPricer.forward", "coq": "cos_forward",
             "args": [("df", "R"), ("fwd", "R"), ("strikes", "R")], "ret": "R"},
            {"kind": "return_rhs", "py": "COSPricer.call", "coq": "cos_call",
             "args": [("df", "R"), ("fwd", "R"), ("put", "R"), ("strikes", "R")], "ret": "R",
             "subst": {"self.forward(strikes=strikes, time=time)": "(cos_forward df fwd strikes)", "self.put(strikes, time)": "put"}},
            {"kind": "return_rhs", "py": "COSPricer.cdf", "coq": "cos_cdf", "args": [("df", "R"), ("digital", "R")], "ret": "R",
             "subst": {"self.digital(strikes=x, time=time)": "digital", "self.model.df(t=time)": "df"}},
            {"kind": "return_rhs", "file": FFT, "py": "FFTPricer.put", "coq": "fft_put",
             "args": [("df", "R"), ("fwd", "R"), ("call", "R"), ("strike", "R")], "ret": "R",
             "subst": {"self.call(strike, maturity)": "call"}},
            {"kind": "assign_rhs", "file": FFT, "py": "FFTPricer._call_prices", "target": "w_s", "coq": "fft_simpson_w",
             "args": [("eta", "R"), ("j", "nat")], "ret": "R", "attrs": {"self.eta": "eta"},
             "subst": {"(-1) ** (np.arange(n) + 1)": "(pow (-1) (S j))", "ds": "(kron j)"}},
            {"file": BS, "py": "CFBlackScholes._call_put", "coq": "bs_call_put", "pyargs": ["flag", "strike", "maturity"],
             "args": [("r", "R"), ("d", "R"), ("spot", "R"), ("sigma", "R"), ("flag", "R"), ("strike", "R"), ("maturity", "R")], "ret": "R",
             "attrs": {"self.bs_model.r": "r", "self.bs_model.d": "d", "self.bs_model.spot": "spot", "self.bs_model.parameters.sigma": "sigma"},
             "consts": {"CFBlackScholes.eps": "(IZR 1 / IZR 100000000)"}, "calls": {"norm.cdf": "Phi"}},
            {"file": BS, "py": "CFBlackScholes.forward", "coq": "bs_forward", "pyargs": ["strike", "maturity"],
             "args": [("r", "R"), ("d", "R"), ("spot", "R"), ("strike", "R"), ("maturity", "R")], "ret": "R",
             "attrs": {"self.bs_model.r": "r", "self.bs_model.d": "d", "self.bs_model.spot": "spot"}},
            {"file": VG, "py": "VarianceGammaModel.levy_exponent_pure_jump", "coq": "vg_exponent", "pyargs": ["x"],
             "args": VG_ARGS + [("x", "R")], "ret": "R",
             "attrs": {"self.parameters.sigma": "sigma", "self.parameters.nu": "nu", "self.parameters.theta": "theta"}},
            {"file": CGMY, "py": "CGMYModel.levy_exponent_pure_jump", "coq": "cgmy_exponent", "pyargs": ["x"],
             "args": [("c", "R"), ("g", "R"), ("m", "R"), ("y", "R"), ("CGammamY", "R"), ("GpowerY", "R"), ("MpowerY", "R"), ("x", "R")],
             "ret": "R", "join_live_only": True, "calls": {"np.power": "Rpower"},
             "attrs": {"self.parameters": "tt", "p.c": "c", "p.g": "g", "p.m": "m", "p.y": "y", "p._CGammamY": "CGammamY",
                       "p._GpowerY": "GpowerY", "p._MpowerY": "MpowerY"}},
            {"file": VG, "py": "VGParameters.__init__", "coq": "vgR_c", "pyargs": ["sigma", "nu", "theta"], "args": VG_ARGS, "ret": "R",
             "attr_tail": "self._c"},
            {"file": VG, "py": "VGParameters.__init__", "coq": "vgR_lambda_p", "pyargs": ["sigma", "nu", "theta"], "args": VG_ARGS, "ret": "R",
             "attr_tail": "self._lambda_p"},
            {"file": VG, "py": "VGParameters.__init__", "coq": "vgR_lambda_m", "pyargs": ["sigma", "nu", "theta"], "args": VG_ARGS, "ret": "R",
             "attr_tail": "self._lambda_m"},
        ],
    },
}

"""py2coq table for C18 (COS / FFT / Black-Scholes closed form, VG and CGMY exponents), domain R."""

COS = "rpylib/numerical/cosmethod.py"
FFT = "rpylib/numerical/fft.py"
BS = "rpylib/numerical/closedform/cfblackscholes.py"
VG = "rpylib/model/levymodel/purejump/variancegamma.py"
CGMY = "rpylib/model/levymodel/purejump/cgmy.py"
LEVY = "rpylib/model/levymodel/levymodel.py"
EXPLEVY = "rpylib/model/levymodel/exponentialoflevymodel.py"

R5 = [("k", "R"), ("a", "R"), ("b", "R"), ("c", "R"), ("d", "R")]
HEADER = """From Coq Require Import ZArith Reals Bool List.
From RV Require Import Base.RB.
Open Scope R_scope.
(* ds = np.zeros(n); ds[0] = 1  in FFTPricer._call_prices, read at index j *)
Definition kron (j : nat) : R := match j with O => 1 | S _ => 0 end.
"""

VG_ARGS = [("sigma", "R"), ("nu", "R"), ("theta", "R")]

SPECS = {
    "GenC18Cos": {
        "file": COS,
        "dom": "R",
        "class_decorators": {"ExponentialOfLevyModel": ["MomentsDecorator()"]},
        "header": HEADER,
        "consts": {"np.pi": "PI"},
        # uninit: the content of the uninitialised cells np.divide(..., where=mask) leaves where the mask is False
        # Phi   : scipy.stats.norm.cdf
        "section": [("uninit", "R"), ("Phi", "R -> R")],
        "funcs": [
            {"py": "COSPricer.xi", "coq": "cos_xi", "pyargs": ["k", "a", "b", "c", "d"], "args": R5, "ret": "R", "nested_defs": True},
            {"py": "COSPricer.psi", "coq": "cos_psi", "pyargs": ["ks", "a", "b", "c", "d"],
             "args": [("ks", "R"), ("a", "R"), ("b", "R"), ("c", "R"), ("d", "R")], "ret": "R",
             "elementwise": {"arrays": ["ks"], "uninit": "uninit"}},
            {"py": "COSPricer.u_put", "coq": "cos_u_put", "pyargs": ["k", "a", "b"], "args": [("k", "R"), ("a", "R"), ("b", "R")], "ret": "R",
             "calls": {"COSPricer.xi": "cos_xi", "COSPricer.psi": "cos_psi"}},
            {"kind": "assign_rhs", "py": "COSPricer.digital", "target": "vk", "coq": "cos_digital_vk",
             "args": [("k", "R"), ("a", "R"), ("b", "R")], "ret": "R", "calls": {"self.psi": "cos_psi"}},
            {"kind": "return_rhs", "py": "COSPricer.forward", "coq": "cos_forward",
             "args": [("df", "R"), ("fwd", "R"), ("strikes", "R")], "ret": "R"},
            {"kind": "return_rhs", "py": "COSPricer.call", "coq": "cos_call",
             "args": [("df", "R"), ("fwd", "R"), ("put", "R"), ("strikes", "R")], "ret": "R",
             "subst": {"self.forward(strikes=strikes, time=time)": "(cos_forward df fwd strikes)", "self.put(strikes, time)": "put"}},
            {"kind": "return_rhs", "py": "COSPricer.cdf", "coq": "cos_cdf", "args": [("df", "R"), ("digital", "R")], "ret": "R",
             "subst": {"self.digital(strikes=x, time=time)": "digital", "self.model.df(t=time)": "df"}},
            {"kind": "return_rhs", "file": FFT, "py": "FFTPricer.put", "coq": "fft_put",
             "args": [("df", "R"), ("fwd", "R"), ("call", "R"), ("strike", "R")], "ret": "R",
             "subst": {"self.call(strike, maturity)": "call"}},
            {"kind": "assign_rhs", "file": FFT, "py": "FFTPricer._call_prices", "target": "w_s", "coq": "fft_simpson_w",
             "args": [("eta", "R"), ("j", "nat")], "ret": "R", "attrs": {"self.eta": "eta"},
             "subst": {"(-1) ** (np.arange(n) + 1)": "(pow (-1) (S j))", "ds": "(kron j)"}},
            {"file": BS, "py": "CFBlackScholes._call_put", "coq": "bs_call_put", "pyargs": ["flag", "strike", "maturity"],
             "args": [("r", "R"), ("d", "R"), ("spot", "R"), ("sigma", "R"), ("flag", "R"), ("strike", "R"), ("maturity", "R")], "ret": "R",
             "attrs": {"self.bs_model.r": "r", "self.bs_model.d": "d", "self.bs_model.spot": "spot", "self.bs_model.parameters.sigma": "sigma"},
             "consts": {"CFBlackScholes.eps": "(IZR 1 / IZR 100000000)"}, "calls": {"norm.cdf": "Phi", "np.maximum": "Rmax"}},
            {"file": BS, "py": "CFBlackScholes.forward", "coq": "bs_forward", "pyargs": ["strike", "maturity"],
             "args": [("r", "R"), ("d", "R"), ("spot", "R"), ("strike", "R"), ("maturity", "R")], "ret": "R",
             "attrs": {"self.bs_model.r": "r", "self.bs_model.d": "d", "self.bs_model.spot": "spot"}},
            {"file": VG, "py": "VarianceGammaModel.levy_exponent_pure_jump", "coq": "vg_exponent", "pyargs": ["x"],
             "args": VG_ARGS + [("x", "R")], "ret": "R",
             "attrs": {"self.parameters.sigma": "sigma", "self.parameters.nu": "nu", "self.parameters.theta": "theta"}},
            {"file": CGMY, "py": "CGMYModel.levy_exponent_pure_jump", "coq": "cgmy_exponent", "pyargs": ["x"],
             "args": [("c", "R"), ("g", "R"), ("m", "R"), ("y", "R"), ("CGammamY", "R"), ("GpowerY", "R"), ("MpowerY", "R"), ("x", "R")],
             "ret": "R", "join_live_only": True, "calls": {"np.power": "Rpower"},
             "attrs": {"self.parameters": "tt", "p.c": "c", "p.g": "g", "p.m": "m", "p.y": "y", "p._CGammamY": "CGammamY",
                       "p._GpowerY": "GpowerY", "p._MpowerY": "MpowerY"}},
            # ---- exponential-of-Levy layer, read on the imaginary axis x = -i u (moment generating argument u real):
            #      1j*x -> u, (x*sigma)**2 -> -(u*sigma)^2, cf(t, -i u) -> mgf
            {"kind": "assign_rhs", "file": LEVY, "py": "LevyModel.levy_exponent", "target": "le", "coq": "levy_kappa",
             "args": [("a", "R"), ("sigma", "R"), ("pj", "R -> R"), ("u", "R")], "ret": "R",
             "subst": {"1j * x * a": "(u * a)", "(x * sigma) ** 2": "(- (u * sigma) ^ 2)", "self.levy_exponent_pure_jump(1j * x)": "(pj u)"}},
            {"kind": "return_rhs", "file": LEVY, "py": "LevyModel.characteristic_function", "coq": "levy_mgf",
             "args": [("t", "R"), ("kappa_u", "R")], "ret": "R", "subst": {"self.levy_exponent(x)": "kappa_u"}},
            # omega: exponent_at_minus_i = complex(levy_exponent(x=-1j)) is kappa(1) on the real reading; the constructor raises
            # ValueError when it is not finite or not real (exp_omega_raises), otherwise omega = -exponent_at_minus_i.real
            {"kind": "assign_rhs", "file": EXPLEVY, "py": "ExponentialOfLevyModel.__init__", "target": "exponent_at_minus_i",
             "coq": "exp_exponent_at_minus_i", "args": [("kappa", "R -> R")], "ret": "R",
             "subst": {"complex(levy_model.levy_exponent(x=-1j))": "(kappa 1)"}},
            {"kind": "raise_test", "file": EXPLEVY, "py": "ExponentialOfLevyModel.__init__", "coq": "exp_omega_raises",
             "args": [("finite1", "bool"), ("z_re", "R"), ("z_im", "R")], "ret": "bool",
             "subst": {"np.isfinite(exponent_at_minus_i)": "finite1", "exponent_at_minus_i.imag": "z_im", "exponent_at_minus_i.real": "z_re"}},
            # HEM: beyond its pole the closed-form exponent is finite and REAL, so the generic guard cannot see eta1 <= 1; the class has its own
            {"kind": "raise_test", "file": "rpylib/model/levymodel/mixed/hem.py", "py": "ExponentialOfHEMModel.__init__", "coq": "hem_exp_raises",
             "args": [("eta1", "R")], "ret": "bool", "attrs": {"parameters.eta1": "eta1"}},
            # CGMY: class guard m < 1 or (m == 1 and y <= 0), in front of the generic one
            {"kind": "raise_test", "file": CGMY, "py": "ExponentialOfCGMYModel.__init__", "coq": "cgmy_exp_raises",
             "args": [("m", "R"), ("y", "R")], "ret": "bool", "attrs": {"parameters.m": "m", "parameters.y": "y"}},
            {"kind": "assign_rhs", "file": EXPLEVY, "py": "ExponentialOfLevyModel.__init__", "target": "self.omega", "coq": "exp_omega",
             "args": [("z_re", "R")], "ret": "R", "subst": {"exponent_at_minus_i.real": "z_re"}},
            {"kind": "assign_rhs", "file": EXPLEVY, "py": "ExponentialOfLevyModel.log_characteristic_function", "target": "drift", "defaults": {"log_spot": "None"},
             "coq": "exp_drift", "args": [("r", "R"), ("d", "R"), ("omega", "R")], "ret": "R",
             "attrs": {"self.r": "r", "self.d": "d", "self.omega": "omega"}},
            {"kind": "return_rhs", "file": EXPLEVY, "py": "ExponentialOfLevyModel.log_characteristic_function", "coq": "exp_mgf_formula", "defaults": {"log_spot": "None"},
             "args": [("log_spot_val", "R"), ("t", "R"), ("drift", "R"), ("levy_cf", "R"), ("u", "R")], "ret": "R",
             "subst": {"np.exp(1j * x * (log_spot_val + t * drift))": "(exp (u * (log_spot_val + t * drift)))"}},
            {"kind": "return_rhs", "file": EXPLEVY, "py": "ExponentialOfLevyModel.df", "coq": "exp_df", "args": [("r", "R"), ("t", "R")],
             "ret": "R", "attrs": {"self.r": "r"}},
            {"kind": "return_rhs", "file": EXPLEVY, "py": "MomentsDecorator.__call__.ClsWithMoments.std_moment", "coq": "exp_std_moment",
             "args": [("mgf", "R -> R -> R -> R"), ("moment", "R"), ("t", "R")], "ret": "R",
             "subst": {"self.log_characteristic_function(t=t, x=-1j * moment, log_spot=0).real": "(mgf 0 t moment)"}},
            {"kind": "return_rhs", "file": EXPLEVY, "py": "MomentsDecorator.__call__.ClsWithMoments.mean", "coq": "exp_mean",
             "args": [("mgf", "R -> R -> R -> R"), ("t", "R")], "ret": "R", "calls": {"self.std_moment": "(exp_std_moment mgf)"}},
            # ---- COS put / call / forward as functions of the same pricing-sum value pf and of model.mean
            {"kind": "assign_rhs", "py": "COSPricer.forward", "target": "fwd", "nth": 0, "of": 2, "coq": "cos_fwd",
             "args": [("spot", "R"), ("mean", "R")], "ret": "R", "subst": {"self.model.spot": "spot", "self.model.mean(time)": "mean"}},
            {"kind": "return_rhs", "py": "COSPricer.put", "coq": "cos_put", "args": [("strikes", "R"), ("pf", "R")], "ret": "R",
             "subst": {"self._pricing_formula(np.log(spot / strikes), time, a, b, u_values)": "pf"}},
            {"kind": "assign_rhs", "file": FFT, "py": "FFTPricer.put", "target": "fwd", "coq": "fft_fwd",
             "args": [("spot", "R"), ("mean", "R")], "ret": "R", "subst": {"self.model.spot": "spot", "self.model.mean(maturity)": "mean"}},
            {"kind": "assign_rhs", "file": FFT, "py": "FFTPricer.put", "target": "df", "coq": "fft_df",
             "args": [("r", "R"), ("maturity", "R")], "ret": "R", "attrs": {"self.r": "r"}},
            # ---- wave 5: butterfly (COS and closed form), digital legs, the df multiplier of the pricing sum, the truncation window
            {"kind": "return_rhs", "py": "COSPricer.butterfly", "coq": "cos_butterfly", "args": [("c1", "R"), ("c2", "R"), ("c3", "R")], "ret": "R",
             "subst": {"calls[0]": "c1", "calls[1]": "c2", "calls[2]": "c3"}},
            {"kind": "return_rhs", "file": BS, "py": "CFBlackScholes.butterfly", "coq": "bs_butterfly", "args": [("c1", "R"), ("c2", "R"), ("c3", "R")],
             "ret": "R", "subst": {"self.call(strike1, maturity)": "c1", "self.call(strike2, maturity)": "c2", "self.call(strike3, maturity)": "c3"}},
            {"kind": "return_rhs", "py": "COSPricer._pricing_formula", "coq": "cos_pricing_formula", "args": [("df", "R"), ("sum_re", "R")], "ret": "R",
             "subst": {"sum_term.real": "sum_re"}},
            {"kind": "return_rhs", "py": "COSPricer.digital", "coq": "cos_digital", "args": [("pf", "R")], "ret": "R",
             "subst": {"self._pricing_formula(np.log(spot / strikes), time, a, b, vk)": "pf"}},
            {"kind": "assign_rhs", "py": "COSPricer._interval_a_b", "target": "delta", "coq": "cos_window_delta",
             "args": [("l", "R"), ("c2", "R"), ("c4", "R"), ("c6", "R")], "ret": "R", "attrs": {"self.l": "l"}, "calls": {"np.sqrt": "sqrt"}},
            {"kind": "return_rhs", "py": "COSPricer._interval_a_b", "coq": "cos_window", "args": [("c1", "R"), ("delta", "R")], "ret": "(R * R)"},
            {"file": BS, "py": "CFBlackScholes.digital", "coq": "bs_digital", "pyargs": ["strike", "maturity"],
             "args": [("r", "R"), ("d", "R"), ("spot", "R"), ("sigma", "R"), ("strike", "R"), ("maturity", "R")], "ret": "R",
             "attrs": {"self.bs_model.r": "r", "self.bs_model.d": "d", "self.bs_model.spot": "spot", "self.bs_model.parameters.sigma": "sigma"},
             "consts": {"CFBlackScholes.eps": "(IZR 1 / IZR 100000000)"}, "calls": {"norm.cdf": "Phi"},
             "subst": {"np.where(fwd > np.asarray(strike), 1, 0)": "(if Rltb strike fwd then IZR 1 else IZR 0)"}},
            {"file": VG, "py": "VGParameters.__init__", "coq": "vgR_c", "pyargs": ["sigma", "nu", "theta"], "args": VG_ARGS, "ret": "R",
             "attr_tail": "self._c"},
            {"file": VG, "py": "VGParameters.__init__", "coq": "vgR_lambda_p", "pyargs": ["sigma", "nu", "theta"], "args": VG_ARGS, "ret": "R",
             "attr_tail": "self._lambda_p"},
            {"file": VG, "py": "VGParameters.__init__", "coq": "vgR_lambda_m", "pyargs": ["sigma", "nu", "theta"], "args": VG_ARGS, "ret": "R",
             "attr_tail": "self._lambda_m"},
        ],
    },
}

"""py2coq table for C19: the credit closed forms (rpylib/numerical/closedform/cflevymodel.py, cflevycopula.py).
_theta is unrolled for the static dimensions 1, 2, 3 by harness/py2coq_ext_copula.py (emit_theta) over an abstract
Num N; the spread maps are translated over R."""

HEADER_N = ("From Coq Require Import List Arith Bool.\nFrom RV Require Import Base.ExtNum.\nImport ListNotations.\n"
            "Set Implicit Arguments.\n")
NAMES = {"M1": "M1", "UI": "UI", "UF": "UF", "terr": "terr", "add": "(nadd N)", "sub": "(nsub N)", "neg": "(nopp N)"}

SPREAD_ARGS = [("r", "R"), ("theta", "R"), ("pv", "R"), ("recovery_rate", "R"), ("maturity", "R"), ("spread", "R")]

SPECS = {
    "GenC19Theta": {
        "file": "rpylib/numerical/closedform/cflevycopula.py",
        "dom": "Q", "header": HEADER_N,
        "section": [("N", "Num"),
                    ("M1", "nat -> ext N -> N"),            # models[i].mass(*interval_I(a))
                    ("UI", "idx -> list (ext N) -> N"),     # levy_copula_model.margin_tail_integral(indices, x)
                    ("UF", "list (ext N) -> N"),            # levy_copula_model.tail_integrals(x)
                    ("terr", "N")],                         # stands for `raise ValueError("All a-levels must be negative")`
        "absdom": {"zero": "(n0 N)", "add": "(nadd N)", "sub": "(nsub N)", "neg": "(nopp N)"},
        "funcs": [
            {"py": "CFLevyModel._theta", "file": "rpylib/numerical/closedform/cflevymodel.py", "coq": "theta_1", "dim": 1,
             "names": NAMES, "emitter": "py2coq_ext_copula:emit_theta"},
            {"py": "CFLevyCopulaModel._theta", "coq": "theta_2", "dim": 2, "names": NAMES, "emitter": "py2coq_ext_copula:emit_theta"},
            {"py": "CFLevyCopulaModel._theta", "coq": "theta_3", "dim": 3, "names": NAMES, "emitter": "py2coq_ext_copula:emit_theta"},
        ],
    },
    "GenC19Spread": {
        "file": "rpylib/numerical/closedform/cflevycopula.py",
        "dom": "R",
        "calls": {"self._theta": "theta_of"},
        "section": [("A", "Type"), ("theta_of", "A -> R")],
        "funcs": [
            {"py": "CFLevyCopulaModel.survival_probability", "coq": "ftd_survival_probability", "pyargs": ["levels_a", "t"],
             "args": [("levels_a", "A"), ("t", "R")], "ret": "R"},
            {"py": "CFLevyCopulaModel.first_to_default_par_spread", "coq": "ftd_par_spread", "pyargs": ["levels_a", "recovery_rate"],
             "args": [("levels_a", "A"), ("recovery_rate", "R")], "ret": "R"},
            {"py": "CFLevyModel.survival_probability", "file": "rpylib/numerical/closedform/cflevymodel.py", "coq": "survival_probability",
             "pyargs": ["level_a", "t"], "args": [("level_a", "A"), ("t", "R")], "ret": "R"},
            {"py": "CFLevyModel.cds_spread", "file": "rpylib/numerical/closedform/cflevymodel.py", "coq": "cds_spread",
             "pyargs": ["level_a", "recovery_rate"], "args": [("level_a", "A"), ("recovery_rate", "R")], "ret": "R"},
            {"py": "CFLevyCopulaModel.implied_cds_spread", "coq": "ftd_implied_fun", "emitter": "py2coq_ext_copula:emit_spread_fun",
             "expect": ["theta = self._theta(level_a)", "r = self.levy_copula_model.models[0].r"], "args": SPREAD_ARGS, "ret": "R"},
            {"py": "CFLevyModel.implied_cds_spread", "file": "rpylib/numerical/closedform/cflevymodel.py", "coq": "implied_fun",
             "emitter": "py2coq_ext_copula:emit_spread_fun", "expect": ["theta = self._theta(level_a)", "r = self.model.r"],
             "args": SPREAD_ARGS, "ret": "R"},
            {"py": "CFLevyModel.implied_cds_threshold", "file": "rpylib/numerical/closedform/cflevymodel.py", "coq": "implied_threshold_fun",
             "emitter": "py2coq_ext_copula:emit_threshold_fun"},
        ],
    },
}

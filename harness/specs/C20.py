"""py2coq table for C20: constraint predicates (tools/parameter.py), the class-level constraint declarations of the four
Parameters classes, and the derived-field expressions, generated TWICE (from __init__ and from initialisation) -> GenC20Params;
the default_calibration table and the bodies of the calibration helpers of model/utils.py as a heap program (emitters of
harness/py2coq_c20.py) -> GenC20Calib."""

PARAM = "rpylib/tools/parameter.py"
HEM = "rpylib/model/levymodel/mixed/hem.py"
MERTON = "rpylib/model/levymodel/mixed/merton.py"
VG = "rpylib/model/levymodel/purejump/variancegamma.py"
CGMY = "rpylib/model/levymodel/purejump/cgmy.py"
BSF = "rpylib/model/levymodel/mixed/blackscholes.py"

X = [("x", "Q")]
VX = [("value", "Q"), ("x", "Q")]
LRX = [("left_bound", "Q"), ("right_bound", "Q"), ("x", "Q")]

GUARDS = {n: f"cond_{n}" for n in ("positive", "negative", "strictly_positive", "strictly_negative", "greater_than",
                                   "strictly_greater_than", "less_than", "strictly_less_than", "between", "strictly_between")}


def cond(name, args):
    return {"kind": "lambda_kw", "file": PARAM, "py": name, "kw": "condition", "coq": f"cond_{name}", "args": args, "ret": "bool"}


def guards(file, cls, prefix, fields):
    return {"kind": "class_guards", "file": file, "py": cls, "prefix": prefix, "fields": fields, "guards": GUARDS}


def stored(file, cls, prefix, prim, der):
    """the complete list of attributes the class stores, derived from the source (fail closed on anything else)"""
    return {"kind": "init_fields", "file": file, "py": cls, "prefix": prefix, "prim": prim, "der": der}


HEM_ARGS = [("sigma", "Q"), ("p", "Q"), ("eta1", "Q"), ("eta2", "Q"), ("intensity", "Q")]
VG_ARGS = [("sigma", "Q"), ("nu", "Q"), ("theta", "Q")]
CGMY_ARGS = [("c", "Q"), ("g", "Q"), ("m", "Q"), ("y", "Q")]


def derived(file, cls, prefix, args, fields):
    out = []
    names = [n for n, _ in args]
    for f in fields:
        out.append({"file": file, "py": f"{cls}.__init__", "coq": f"{prefix}_init_{f.lstrip('_')}", "pyargs": names, "args": args, "ret": "Q",
                    "attr_tail": f"self.{f}"})
        out.append({"file": file, "py": f"{cls}.initialisation", "coq": f"{prefix}_reinit_{f.lstrip('_')}", "pyargs": [], "args": args, "ret": "Q",
                    "attr_tail": f"self.{f}", "attrs": {f"self.{n}": n for n in names}})
    return out


SPECS = {
    "GenC20Params": {
        "file": PARAM,
        "dom": "Q",
        # opaque float functions: the theorems hold for every interpretation, the correspondence feeds the
        # implementation's values (Gamma, pow) or an executable 2^-100-accurate rational square root
        "section": [("fsqrt", "Q -> Q"), ("fgamma", "Q -> Q"), ("fpow", "Q -> Q -> Q")],
        "calls": {"np.sqrt": "fsqrt", "sp.special.gamma": "fgamma", "np.power": "fpow"},
        "funcs": [
            cond("positive", X), cond("negative", X), cond("strictly_positive", X), cond("strictly_negative", X),
            cond("greater_than", VX), cond("strictly_greater_than", VX), cond("less_than", VX), cond("strictly_less_than", VX),
            cond("between", LRX), cond("strictly_between", LRX),
            guards(HEM, "HEMParameters", "hem_guard_", ["sigma", "p", "eta1", "eta2", "intensity"]),
            guards(MERTON, "MertonParameters", "merton_guard_", ["sigma", "mu_j", "sigma_j", "intensity"]),
            guards(VG, "VGParameters", "vg_guard_", ["sigma", "nu", "theta"]),
            guards(CGMY, "CGMYParameters", "cgmy_guard_", ["c", "g", "m", "y"]),
            guards(BSF, "BlackScholesParameters", "bs_guard_", ["sigma"]),
            stored(HEM, "HEMParameters", "hem_", ["sigma", "p", "eta1", "eta2", "intensity"], ["_xi"]),
            stored(MERTON, "MertonParameters", "merton_", ["sigma", "mu_j", "sigma_j", "intensity"], []),
            stored(VG, "VGParameters", "vg_", ["sigma", "nu", "theta"], ["_c", "_lambda_p", "_lambda_m"]),
            stored(CGMY, "CGMYParameters", "cgmy_", ["c", "g", "m", "y"], ["_CGammamY", "_MpowerY", "_GpowerY"]),
            stored(BSF, "BlackScholesParameters", "bs_", ["sigma"], ["variance"]),
        ]
        + derived(HEM, "HEMParameters", "hem", HEM_ARGS, ["_xi"])
        + derived(VG, "VGParameters", "vg", VG_ARGS, ["_c", "_lambda_p", "_lambda_m"])
        + derived(CGMY, "CGMYParameters", "cgmy", CGMY_ARGS, ["_CGammamY", "_MpowerY", "_GpowerY"])
        + derived(BSF, "BlackScholesParameters", "bs", [("sigma", "Q")], ["variance"])
        # wave 8b (audit 5b, top-10 #10): the class-level moment guards of the exponential models' constructors, generated from the SAME
        # `if <test>: raise ValueError` lines as GenC18Cos.hem_exp_raises / cgmy_exp_raises (there over R, here over Q).  Proofs/C20_Guards.v
        # instantiates the heap program's model_ok with them.  (The generic guard of ExponentialOfLevyModel.__init__ tests the complex float
        # levy_exponent(-1j): it stays a class component `generic`, fed from the implementation.)
        + [{"kind": "raise_test", "file": HEM, "py": "ExponentialOfHEMModel.__init__", "coq": "hem_exp_raises_q",
            "args": [("eta1", "Q")], "ret": "bool", "attrs": {"parameters.eta1": "eta1"}},
           {"kind": "raise_test", "file": CGMY, "py": "ExponentialOfCGMYModel.__init__", "coq": "cgmy_exp_raises_q",
            "args": [("m", "Q"), ("y", "Q")], "ret": "bool", "attrs": {"parameters.m": "m", "parameters.y": "y"}}],
    },
}

# ----------------------------------------------------------------------------- model/utils.py: the calibration helpers
UTILS = "rpylib/model/utils.py"
CALIB_HEADER = ("From Coq Require Import ZArith QArith Qminmax Qabs Bool List.\n"
                "From RV Require Import Base.QB Gen.GenC20Params Model.Params Model.ParamsHeap.\nOpen Scope Q_scope.\n")
SPECS["GenC20Calib"] = {
    "file": UTILS,
    "dom": "Q",
    "header": CALIB_HEADER,
    # the heap program is generic in the parameter class (instantiated per class in Proofs/C20_Calib.v)
    "section": [("Rec", "Type"), ("Field", "Type"), ("set", "Rec -> Field -> Q -> Rec * bool"), ("initialisation", "Rec -> outcome Rec"),
                ("price", "Rec -> Q"), ("dflt", "Rec"), ("model_ok", "Rec -> bool")],
    "funcs": [
        # default_calibration = {ModelType.X: DefaultCalibrationConfiguration(field, (lo, hi))}: dc_<cls>_field / _lo / _hi
        {"emitter": "py2coq_c20:default_table", "py": "default_calibration",
         "classes": {"HEM": ("hem", "HemField", {"sigma": "HSigma", "p": "HP", "eta1": "HEta1", "eta2": "HEta2", "intensity": "HIntensity"}),
                     "MERTON": ("merton", "MertonField", {"sigma": "MSigma", "mu_j": "MMuJ", "sigma_j": "MSigmaJ", "intensity": "MIntensity"}),
                     "CGMY": ("cgmy", "CgmyField", {"c": "CC", "g": "CG", "m": "CM", "y": "CY"}),
                     "VG": ("vg", "VgField", {"sigma": "VSigma", "nu": "VNu", "theta": "VTheta"})}},
        # bodies of calibrate_model_parameter (+ inner calibration_fun), calibrate_model_parameter_to_atm_call, run_default_calibration
        # as a program over the heap operations of Model/ParamsHeap.v: gen_calibration_fun, gen_calibrate_model_parameter,
        # gen_run_default_calibration
        {"emitter": "py2coq_c20:heap_program", "py": "calibrate_model_parameter",
         "defaults_of": {"calibrate_model_parameter_to_atm_call": {"bs_sigma": "0.1"}, "run_default_calibration": {"bs_sigma": "0.1"}}},
    ],
}

"""py2coq table of the cross-cutting TIE modules: loop / array code that the property theorems know through hand models
(coq/Model/*.v), regenerated here from the source by the loop plug-in harness/py2coq_loops.py.  coq/Proofs/Tie_*.v prove
each generated definition equal to the hand model; harness/tie_selftest.py regenerates, rebuilds and reports."""

_HDR_Q = ("From Coq Require Import ZArith QArith Qminmax Qabs Bool List.\n"
          "From RV Require Import Base.QB Proofs.Tie_PyLoops.\nImport ListNotations.\nOpen Scope Q_scope.\n")

_QQQ = "Q -> Q -> Q"
_HL = "(middle_nd2 (left_point_nd2 axes0 axes1 origin_coordinate origin_coordinate) ((0 # 1), (0 # 1)))"
_HR = "(middle_nd2 ((0 # 1), (0 # 1)) (right_point_nd2 axes0 axes1 origin_coordinate origin_coordinate))"

SPECS = {
    # ---------------------------------------------------------------- C04: drift of the chain (loop with two accumulators)
    "GenTieDrift": {
        "file": "rpylib/process/markovchain/markovchain.py", "dom": "Q", "ext": "py2coq_loops", "header": _HDR_Q,
        "funcs": [
            {"py": "compute_mu_h", "coq": "compute_mu_h", "pyargs": ["levy_measure", "grid", "axis", "origin"],
             "args": [("integral", _QQQ), ("middle", _QQQ), ("axis", "list Q"), ("origin", "Z")], "ret": "Q",
             "attrs": {"levy_measure.integrate": "integral", "grid.middle": "middle"},
             "calls": {"integral": "integral", "middle": "middle"},
             "lists": {"axis": ("axis", "Q")}, "int_names": ["origin"], "identity_calls": ["np.array"]},
        ],
    },
    # ---------------------------------------------------------------- C01 / C13: cells of the grid and the rate vector
    "GenTieChain": {
        "file": "rpylib/distribution/samplingfactory.py", "dom": "Q", "ext": "py2coq_loops", "header": _HDR_Q,
        "funcs": [
            {"file": "rpylib/grid/spatial.py", "py": "CTMCGrid.left_point", "coq": "left_point", "pyargs": ["coordinate"],
             "decorators": ["singledispatchmethod"], "dispatch": {"variant": "base", "registered": ["Coordinate1D", "CoordinateND"]},
             "args": [("axes0", "list Q"), ("coordinate", "Z")], "ret": "Q",
             "lists": {"self.axes[0]": ("axes0", "Q")}, "int_names": ["coordinate"]},
            {"file": "rpylib/grid/spatial.py", "py": "CTMCGrid.right_point", "coq": "right_point", "pyargs": ["coordinate"],
             "decorators": ["singledispatchmethod"], "dispatch": {"variant": "base", "registered": ["Coordinate1D", "CoordinateND"]},
             "args": [("axes0", "list Q"), ("coordinate", "Z")], "ret": "Q",
             "lists": {"self.axes[0]": ("axes0", "Q")}, "int_names": ["coordinate"]},
            {"file": "rpylib/grid/spatial.py", "py": "CTMCGrid.middle", "coq": "middle", "emitter": "py2coq_loops:registered",
             "variant_of": "float", "ext": "py2coq_loops", "pyargs": ["xi", "xip"], "args": [("xi", "Q"), ("xip", "Q")], "ret": "Q"},
            # ---- wave 8 (audit5a X-d): the variants the call sites DISPATCH to.  compute_intensity_of_jumps and the coupling pass
            # grid.origin_coordinate [+ increment], a Coordinate1D on a one-axis grid (CTMCGrid.__init__, pinned below) ->
            # spatial.py `@left_point.register _(self, coordinate: Coordinate1D)`; grid[position] -> Grid.__getitem__ (base variant,
            # `coordinates.value`).  On a two-axis grid: the CoordinateND variants (tuple(genexp) over enumerate(coordinate), the
            # coordinate read as a 2-tuple of ints) and the base (tuple) variant of middle.  Tie_Chain.v / Tie_Chain2d.v prove them
            # equal to the int variant (per axis) -- right_point's CoordinateND variant clamps EVERY axis with len(axes[0]).
            {"file": "rpylib/grid/spatial.py", "py": "CTMCGrid.left_point", "coq": "left_point_c1d", "emitter": "py2coq_loops:registered",
             "variant_of": "Coordinate1D", "pyargs": ["coordinate"], "args": [("axes0", "list Q"), ("coordinate", "Z")], "ret": "Q",
             "lists": {"self.axes[0]": ("axes0", "Q")}, "int_attrs": {"coordinate.value": "coordinate"}},
            {"file": "rpylib/grid/spatial.py", "py": "CTMCGrid.right_point", "coq": "right_point_c1d", "emitter": "py2coq_loops:registered",
             "variant_of": "Coordinate1D", "pyargs": ["coordinate"], "args": [("axes0", "list Q"), ("coordinate", "Z")], "ret": "Q",
             "lists": {"self.axes[0]": ("axes0", "Q")}, "int_attrs": {"coordinate.value": "coordinate"}},
            {"file": "rpylib/grid/grid.py", "py": "Grid.__getitem__", "coq": "getitem_c1d", "pyargs": ["coordinates"],
             "decorators": ["singledispatchmethod"], "dispatch": {"variant": "base", "registered": ["CoordinateND"]}, "args": [("axes0", "list Q"), ("coordinates", "Z")], "ret": "Q",
             "lists": {"self.axes[0]": ("axes0", "Q")}, "int_attrs": {"coordinates.value": "coordinates"}},
            {"file": "rpylib/grid/spatial.py", "py": "CTMCGrid.left_point", "coq": "left_point_nd2", "emitter": "py2coq_loops:registered",
             "variant_of": "CoordinateND", "pyargs": ["coordinate"], "ret": "Q * Q", "ret_tuple": 2,
             "args": [("axes0", "list Q"), ("axes1", "list Q"), ("c0", "Z"), ("c1", "Z")], "static_args": {"coordinate": ["Z:c0", "Z:c1"]},
             "lists": {"self.axes[0]": ("axes0", "Q"), "self.axes[1]": ("axes1", "Q")}},
            {"file": "rpylib/grid/spatial.py", "py": "CTMCGrid.right_point", "coq": "right_point_nd2", "emitter": "py2coq_loops:registered",
             "variant_of": "CoordinateND", "pyargs": ["coordinate"], "ret": "Q * Q", "ret_tuple": 2,
             "args": [("axes0", "list Q"), ("axes1", "list Q"), ("c0", "Z"), ("c1", "Z")], "static_args": {"coordinate": ["Z:c0", "Z:c1"]},
             "lists": {"self.axes[0]": ("axes0", "Q"), "self.axes[1]": ("axes1", "Q")}},
            {"file": "rpylib/grid/spatial.py", "py": "CTMCGrid.middle", "coq": "middle_nd2", "pyargs": ["xi", "xip"],
             "decorators": ["singledispatchmethod"], "dispatch": {"variant": "base", "registered": ["float"]}, "ret": "Q * Q", "ret_tuple": 2, "args": [("xi", "Q * Q"), ("xip", "Q * Q")],
             "static_args": {"xi": ["(fst xi)", "(snd xi)"], "xip": ["(fst xip)", "(snd xip)"]}},
            # NOT a translation: the stores of CTMCGrid.__init__ into origin / origin_coordinate that the readings `grid.origin = 0`
            # (= (0, 0) on two axes), `grid.origin_coordinate` = Coordinate1D(o) (= CoordinateND((o, o))) were written against
            {"file": "rpylib/grid/spatial.py", "py": "CTMCGrid.__init__", "coq": "pin_ctmcgrid_init", "emitter": "py2coq_loops:pinned",
             "pin_targets": ["self.origin", "self.origin_coordinate"],
             "pin": [([], "self.origin = 0.0"), ([], "self.origin_coordinate = Coordinates(origin_coordinate)"),
                     (["(dimension := len(axes)) > 1"], "self.origin = tuple([0.0] * dimension)"),
                     (["(dimension := len(axes)) > 1"], "self.origin_coordinate = Coordinates([origin_coordinate] * dimension)")]},
            # LevyModel.mass as compute_intensity_of_jumps calls it for a 1-d model: a, b are 1-tuples (not Real), no indices
            {"file": "rpylib/model/levymodel/levymodel.py", "py": "LevyModel.mass", "coq": "levymodel_mass_1d", "pyargs": ["a", "b", "indices"], "defaults": {"indices": "None"},
             "args": [("nu_integrate", _QQQ), ("a0", "Q"), ("b0", "Q")], "ret": "Q",
             "static_tests": {"indices": False, "isinstance(a, Real)": False}, "static_args": {"a": ["a0"], "b": ["b0"]},
             "kw_calls": {"self.levy_triplet.nu.integrate": ("nu_integrate", ["a", "b"])}},
            # q = np.zeros(len(axes0)); for k, x in enumerate(axes0): if k != m_middle: q[k] = int_lm(cell of k)
            {"py": "create_q_vector", "coq": "create_q_vector", "pyargs": ["levy_measure", "grid"],
             "args": [("int_lm", _QQQ), ("grid_middle", _QQQ), ("axes0", "list Q"), ("origin_coordinate", "Z")], "ret": "list Q",
             "attrs": {"levy_measure.integrate": "int_lm"}, "int_attrs": {"grid.origin_coordinate": "origin_coordinate"},
             "calls": {"int_lm": "int_lm", "grid.middle": "grid_middle"},
             "int_calls": {"grid.left_point": "left_point axes0", "grid.right_point": "right_point axes0"},
             "lists": {"grid.axes[0]": ("axes0", "Q")}},
            # TIE2 -- compute_intensity_of_jumps specialised to a 1-d model (`model.dimension_model() == 1`, grid.origin = 0.0 as
            # CTMCGrid.__init__ sets it for one axis): the list comprehension, enumerate(zip(..)), itertools.product(*intervals),
            # next(..) and the loop over the remaining blocks are evaluated / unrolled at translation time (py2coq_loops "static");
            # model.mass(a=(lo,), b=(hi,)) of a 1-d model is levy_measure.integrate(lo, hi) = `mass lo hi`
            {"py": "compute_intensity_of_jumps", "coq": "compute_intensity_of_jumps_1d", "pyargs": ["model", "grid"],
             "emitter": "py2coq_loops:checked", "require_imports": {"product": "itertools"},
             "args": [("mass", _QQQ), ("grid_middle", _QQQ), ("axes0", "list Q"), ("origin_coordinate", "Z")], "ret": "Q",
             "static_tests": {"model.dimension_model() == 1": True},
             "attrs": {"grid.origin": "(0 # 1)"}, "int_attrs": {"grid.origin_coordinate": "origin_coordinate"},
             "calls": {"grid.middle": "grid_middle"}, "kw_calls": {"model.mass": ("levymodel_mass_1d mass", ["a", "b"])},
             "int_calls": {"grid.left_point": "left_point_c1d axes0", "grid.right_point": "right_point_c1d axes0"},   # wave 8: Coordinate1D
             "lists": {"grid.axes[0]": ("axes0", "Q")}},
        ],
    },
    # ---------------------------------------------------------------- C01 / C19: total jump rate of a 2-d (copula) chain
    "GenTieChain2d": {
        "file": "rpylib/distribution/samplingfactory.py", "dom": "Q", "ext": "py2coq_loops",
        "header": _HDR_Q + "From RV Require Import Gen.GenTieChain.\n",
        "funcs": [
            # compute_intensity_of_jumps for a 2-d model on a product grid (`model.dimension_model() == 1` is false): the 3 x 3 blocks
            # of itertools.product minus the first, unrolled.  h_left / h_right are tuples there: CTMCGrid.left_point /
            # right_point (CoordinateND variants) and middle (tuple variant) act per axis with the same origin coordinate,
            # grid.origin = (0.0, 0.0) -- that reading is declared in static_values (and exercised by the spot check)
            {"py": "compute_intensity_of_jumps", "coq": "compute_intensity_of_jumps_2d", "pyargs": ["model", "grid"],
             "emitter": "py2coq_loops:checked", "require_imports": {"product": "itertools"},
             "args": [("mass2", "Q * Q -> Q * Q -> Q"), ("grid_middle", _QQQ), ("axes0", "list Q"), ("axes1", "list Q"),
                      ("origin_coordinate", "Z")], "ret": "Q",
             "static_tests": {"model.dimension_model() == 1": False},
             "static_values": {
                 "grid.middle(grid.left_point(grid.origin_coordinate), grid.origin)":
                     ["(grid_middle (left_point axes0 origin_coordinate) (0 # 1))", "(grid_middle (left_point axes1 origin_coordinate) (0 # 1))"],
                 "grid.middle(grid.origin, grid.right_point(grid.origin_coordinate))":
                     ["(grid_middle (0 # 1) (right_point axes0 origin_coordinate))", "(grid_middle (0 # 1) (right_point axes1 origin_coordinate))"]},
             "kw_calls": {"model.mass": ("mass2", ["a", "b"])},
             "lists": {"grid.axes[0]": ("axes0", "Q"), "grid.axes[1]": ("axes1", "Q")}},
            # wave 8 (audit5a X-d): the same function with h_left / h_right built from the TRANSLATED variants the calls dispatch to
            # on a two-axis grid -- left_point_nd2 / right_point_nd2 (CoordinateND) and middle_nd2 (tuple) of Gen/GenTieChain.v --
            # applied to grid.origin_coordinate = (o, o) and grid.origin = (0, 0) (CTMCGrid.__init__, pinned in GenTieChain).
            # static_values here only names the call: its value is the application of the generated definitions, not a hand term.
            # Tie_Chain2d.v: equal to the definition above (hence to Chain.intensity2) when the clamp len(axes[0]) of
            # right_point's CoordinateND variant agrees with the second axis' own; a counterexample otherwise.
            {"py": "compute_intensity_of_jumps", "coq": "compute_intensity_of_jumps_2d_nd", "pyargs": ["model", "grid"],
             "emitter": "py2coq_loops:checked", "require_imports": {"product": "itertools"},
             "args": [("mass2", "Q * Q -> Q * Q -> Q"), ("axes0", "list Q"), ("axes1", "list Q"), ("origin_coordinate", "Z")], "ret": "Q",
             "static_tests": {"model.dimension_model() == 1": False},
             "static_values": {
                 "grid.middle(grid.left_point(grid.origin_coordinate), grid.origin)": [_f + _HL + ")" for _f in ("(fst ", "(snd ")],
                 "grid.middle(grid.origin, grid.right_point(grid.origin_coordinate))": [_f + _HR + ")" for _f in ("(fst ", "(snd ")]},
             "kw_calls": {"model.mass": ("mass2", ["a", "b"])},
             "lists": {"grid.axes[0]": ("axes0", "Q"), "grid.axes[1]": ("axes1", "Q")}},
        ],
    },
    # ---------------------------------------------------------------- C15: the running chain path over the product intervals
    "GenTiePaths": {
        "file": "rpylib/process/markovchain/markovchain.py", "dom": "Q", "ext": "py2coq_loops", "header": _HDR_Q,
        "funcs": [
            # values: per interval the chain values (1-d chain: a list of numbers); pieces is a Python list of arrays
            {"py": "chain_over_intervals", "coq": "chain_over_intervals", "pyargs": ["values"],
             "args": [("values", "list (list Q)")], "ret": "list Q",
             "lists": {"values": ("values", "list Q")}, "local_lists": {"pieces": "list Q"}},
        ],
    },
    # ---------------------------------------------------------------- C02: descent of the binary search tree (while loop)
    "GenTieBst": {
        "file": "rpylib/distribution/variate/binarysearchtree.py", "dom": "Q", "ext": "py2coq_loops", "header": _HDR_Q,
        "funcs": [
            # while ptr <= K: ptr = 2 ptr (+1); at most K + 1 tests are needed from ptr = 1 (ptr at least doubles): fuel K + 1
            {"py": "BinarySearchTree.sample_with_u", "coq": "sample_with_u", "pyargs": ["u"],
             "args": [("K", "Z"), ("bst", "list Q"), ("u", "Q")], "ret": "Z", "ret_int": True,
             "int_attrs": {"self.K": "K"}, "int_names": ["ptr"], "lists": {"self.bst": ("bst", "Q")},
             "identity_calls": ["self.states"], "skip_stmts": ["self.sampling_cost += 1"],
             "fuel": "(S (Z.to_nat K))", "on_fuel": "(-1)%Z"},
        ],
    },
    # ---------------------------------------------------------------- C02: one draw of the alias sampler
    "GenTieAlias": {
        "file": "rpylib/distribution/variate/alias.py", "dom": "Q", "ext": "py2coq_loops",
        "header": _HDR_Q.replace("Qabs Bool", "Qabs Qround Bool"),
        "funcs": [
            # x = np.uint(ku) truncates the float ku = K * uniform: Qfloor (ku >= 0); the result is the Python int x or J[x]
            {"py": "AliasMethod._draw_with_u", "coq": "draw_with_u", "pyargs": ["uniform"],
             "args": [("K", "Z"), ("q", "list Q"), ("J", "list Z"), ("uniform", "Q")], "ret": "Z", "ret_int": True,
             "int_attrs": {"self.K": "K"}, "lists": {"self.q": ("q", "Q"), "self.J": ("J", "Z")},
             "float_to_int": {"np.uint": "Qfloor"}},
        ],
    },
    # ---------------------------------------------------------------- C03: the level coupling of one fine increment
    "GenTieCoupling": {
        "file": "rpylib/process/coupling/couplingmarkovchain.py", "dom": "Q", "ext": "py2coq_loops",
        "header": _HDR_Q + "From RV Require Import Gen.GenTieChain.\n",   # left_point / right_point as generated there
        "funcs": [
            # grid[position] is CTMCGrid.__getitem__ on a 1-d grid: axes[0][position]
            {"py": "CouplingSimulation.probability_to_right_jump", "coq": "probability_to_right_jump",
             "pyargs": ["grid", "mass", "increment"],
             "args": [("mass", _QQQ), ("grid_middle", _QQQ), ("axes0", "list Q"), ("origin_coordinate", "Z"), ("increment", "Z")],
             "ret": "Q", "int_names": ["increment"], "int_attrs": {"grid.origin_coordinate": "origin_coordinate"},
             "decorators": ["staticmethod"], "subscript_calls": {"grid": "getitem_c1d axes0"}, "calls": {"mass": "mass", "grid.middle": "grid_middle"},
             "int_calls": {"grid.left_point": "left_point_c1d axes0", "grid.right_point": "right_point_c1d axes0"}},   # wave 8: Coordinate1D
            # the coupling uniform is the parameter u; the call of probability_to_right_jump is matched textually
            {"py": "CouplingSimulation.coupling_state", "coq": "coupling_state", "pyargs": ["increment"],
             "args": [("mass", _QQQ), ("grid_middle", _QQQ), ("axes0", "list Q"), ("origin_coordinate", "Z"), ("increment", "Z"), ("u", "Q")],
             "ret": "Q", "int_names": ["increment"], "int_attrs": {"grid.origin_coordinate": "origin_coordinate"},
             "subscript_calls": {"grid": "getitem_c1d axes0"}, "skip_stmts": ["grid = self.coupling_process.grid"],
             "attrs": {"self.coupling_process.fine_process.model.mass": "mass"},
             "subst": {"self.coupling_process.uniform.sample()": "u",
                       "self.probability_to_right_jump(grid, mass, increment)":
                           "(probability_to_right_jump mass grid_middle axes0 origin_coordinate increment)"},
             "int_calls": {"grid.left_point": "left_point_c1d axes0", "grid.right_point": "right_point_c1d axes0"}},   # wave 8: Coordinate1D
        ],
    },
}

# wave 8: every TIE function goes through the source guards of py2coq_loops (one def per name, declared decorators, no
# re-bound module alias / built-in); `registered`, `checked`, `pinned` call them themselves
for _spec in SPECS.values():
    for _fn in _spec["funcs"]:
        _fn.setdefault("emitter", "py2coq_loops:guarded")

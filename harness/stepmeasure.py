"""Step Levy measures with dyadic data, defined through rpylib's public subclassing interface.

StepMeasure(LevyMeasure): density  nu(x) = d_i  on (b_{i-1}, b_i), 0 outside [b_0, b_n]; all b_i and d_i are
dyadic rationals, the d_i multiples of 3 (so that the second-moment integral d*(hi^3-lo^3)/3 is dyadic too).
integrate / integrate_against_x / integrate_against_xx are evaluated in `fractions.Fraction` and converted
to float; the conversion is asserted to be exact.  With dyadic grids every float operation of rpylib's
generic chain/drift/coupling code is then exact and its results, read back with Fraction(x), must be equal
to the Q model evaluated by Coq's vm_compute.

StepModel(LevyModel) wraps a StepMeasure in a LevyTriplet with declared representation / drift / sigma.
The `finite_variation` flag is what the generic code reads (`jump_of_finite_variation()`); a step density
is bounded, so declaring `finite_variation=False` does not describe a real infinite-variation measure: it
only drives the code through its infinite-variation branch with exact arithmetic.
"""
from __future__ import annotations

import math
import random
from fractions import Fraction

import numpy as np

from rpylib.model.levymodel.levymodel import LevyMeasure, LevyModel, LevyTriplet, LevyRepresentation
from rpylib.model.model import ModelType


class InexactFloat(Exception):
    """a value that was meant to be exactly representable as a double is not"""


def exact_float(fr: Fraction) -> float:
    x = float(fr)
    if Fraction(x) != fr:
        raise InexactFloat(f"{fr} is not a double")
    return x


def F(x) -> Fraction:
    """exact Fraction of a float / numpy float / int"""
    if isinstance(x, Fraction):
        return x
    if isinstance(x, (int, np.integer)):
        return Fraction(int(x))
    return Fraction(float(x))


class StepMeasure(LevyMeasure):
    def __init__(self, breaks, dens, finite_variation: bool = True, strict: bool = True):
        self.strict = strict      # strict: every returned integral must be an exact double (dyadic inputs only)
        self.breaks = [Fraction(b) for b in breaks]
        self.dens = [Fraction(d) for d in dens]
        assert len(self.breaks) == len(self.dens) + 1 and len(self.dens) >= 1
        assert all(a < b for a, b in zip(self.breaks, self.breaks[1:]))
        assert all(d >= 0 for d in self.dens)
        self.finite_variation = finite_variation
        self.calls = 0

    # ---- the abstract interface of LevyMeasure
    def __call__(self, x):
        x = F(x)
        for lo, hi, d in self.pieces():
            if lo < x < hi:
                return float(d)
        return 0.0

    def jump_of_finite_activity(self) -> bool:
        return True

    def jump_of_finite_variation(self) -> bool:
        return self.finite_variation

    def finite_first_moment(self):
        return True

    def blumenthal_getoor_index(self) -> float:
        return 0.0 if self.finite_variation else 1.5

    def support(self):
        return float(self.breaks[0]), float(self.breaks[-1])

    # ---- exact integrals
    def pieces(self):
        return list(zip(self.breaks, self.breaks[1:], self.dens))

    def _clip(self, x) -> Fraction:
        if x == -math.inf or x == -np.inf:
            return self.breaks[0]
        if x == math.inf:
            return self.breaks[-1]
        return min(max(F(x), self.breaks[0]), self.breaks[-1])

    def moment_q(self, a, b, n: int) -> Fraction:
        """exact integral of x^n nu(dx) over [a, b] (a <= b), n in {0,1,2}"""
        a, b = self._clip(a), self._clip(b)
        tot = Fraction(0)
        for lo, hi, d in self.pieces():
            l, h = max(a, lo), min(b, hi)
            if l < h:
                tot += d * (h ** (n + 1) - l ** (n + 1)) / (n + 1)
        return tot

    def _out(self, fr: Fraction) -> float:
        return exact_float(fr) if self.strict else float(fr)

    def integrate(self, a: float, b: float) -> float:
        if a > b:
            raise ValueError("Expected a<b when integrating the levy measure")
        self.calls += 1
        return self._out(self.moment_q(a, b, 0))

    def integrate_against_x(self, a: float, b: float) -> float:
        if a > b:
            raise ValueError("Expected a<b when integrating the levy measure")
        return self._out(self.moment_q(a, b, 1))

    def integrate_against_xx(self, a: float, b: float) -> float:
        if a > b:
            raise ValueError("Expected a<b when integrating the levy measure")
        return self._out(self.moment_q(a, b, 2))

    # ---- Coq literal of the measure: list of (lo, hi, density)
    def coq(self) -> str:
        from common import qlit, lst
        return lst([f"({qlit(lo)}, {qlit(hi)}, {qlit(d)})" for lo, hi, d in self.pieces()])


class StepModel(LevyModel):
    def __init__(self, measure: StepMeasure, a=0.0, sigma=0.0,
                 representation: LevyRepresentation = LevyRepresentation.CENTER):
        triplet = LevyTriplet(sigma=float(sigma), nu=measure, a=float(a), representation=representation)
        super().__init__(model_type=ModelType.HEM, levy_triplet=triplet, cumulant=None)
        self._declared_rep = representation

    def __repr__(self):
        t = self.levy_triplet
        return f"StepModel(a={t.a}, sigma={t.sigma}, rep={t.representation})"

    def levy_exponent_pure_jump(self, x):
        """int (exp(z y) - 1 - z y c(y)) nu(dy), z = x, with the cut-off c of the DECLARED representation
        (closed form per piece; transcendental, hence not exact: only used to build ExponentialOfLevyModel)"""
        import cmath
        nu = self.levy_triplet.nu
        inner = getattr(nu, "levy_measure", nu)        # un-truncated step measure
        rep = getattr(self, "_declared_rep", self.levy_triplet.representation)
        z = complex(x)
        tot = 0j
        for lo, hi, d in inner.pieces():
            lo_f, hi_f, d_f = float(lo), float(hi), float(d)
            if d_f == 0.0:
                continue
            e = (cmath.exp(z * hi_f) - cmath.exp(z * lo_f)) / z if z != 0 else (hi_f - lo_f)
            tot += d_f * (e - (hi_f - lo_f))
        if rep == LevyRepresentation.CENTER:
            comp = inner.moment_q(-math.inf, math.inf, 1)
        elif rep == LevyRepresentation.ONEONE or (rep == LevyRepresentation.TILDE and not inner.finite_variation):
            comp = inner.moment_q(-1, 1, 1)
        else:
            comp = Fraction(0)
        return tot - z * float(comp)

    def intensity(self):
        nu = self.levy_triplet.nu
        return nu.integrate(-np.inf, np.inf)


# ------------------------------------------------------------------------------------ random generators
def dyadic(rng: random.Random, lo_num: int, hi_num: int, bits: int) -> Fraction:
    return Fraction(rng.randrange(lo_num, hi_num + 1), 2 ** bits)


def random_step_measure(rng: random.Random, left: Fraction, right: Fraction, max_pieces: int = 8, bits: int = 4,
                        finite_variation: bool = True, zero_prob: float = 0.15, cover: bool = True) -> StepMeasure:
    """a step measure whose support covers [left, right] (when `cover`) with random dyadic break points
    (multiples of 2^-bits) and densities 3*k/4, k in 0..12 (some pieces get density 0)."""
    left, right = Fraction(left), Fraction(right)
    unit = Fraction(1, 2 ** bits)
    lo = left - (unit * rng.randrange(0, 5) if not cover or rng.random() < 0.5 else 0)
    hi = right + (unit * rng.randrange(0, 5) if not cover or rng.random() < 0.5 else 0)
    if not cover and rng.random() < 0.5:     # support strictly inside the grid on one side
        lo = left + unit * rng.randrange(0, 3)
    n_units = int((hi - lo) / unit)
    k = max(1, min(max_pieces, n_units, rng.randrange(1, max_pieces + 1)))
    cuts = sorted(rng.sample(range(1, n_units), k - 1)) if n_units > 1 and k > 1 else []
    breaks = [lo] + [lo + unit * c for c in cuts] + [hi]
    dens = [Fraction(0) if rng.random() < zero_prob else Fraction(3 * rng.randrange(1, 13), 4) for _ in range(len(breaks) - 1)]
    if all(d == 0 for d in dens):
        dens[rng.randrange(len(dens))] = Fraction(3, 4)
    return StepMeasure(breaks, dens, finite_variation=finite_variation)


def random_dyadic_axis(rng: random.Random, n_left: int, n_right: int, h: Fraction, bits: int = 3):
    """strictly increasing dyadic axis  left ++ [0] ++ right  with -h, +h next to the origin; gaps are
    random multiples of 2^-bits.  Returns (list of Fractions, origin index)."""
    unit = Fraction(1, 2 ** bits)
    right = [Fraction(h)]
    for _ in range(n_right - 1):
        right.append(right[-1] + unit * rng.randrange(1, 6))
    left = [-Fraction(h)]
    for _ in range(n_left - 1):
        left.append(left[-1] - unit * rng.randrange(1, 6))
    left.reverse()
    return left + [Fraction(0)] + right, len(left)


def make_grid(axis, origin: int, h, dimension: int = 1):
    from rpylib.grid.spatial import CTMCGrid
    arr = np.array([float(x) for x in axis])
    return CTMCGrid(h=float(h), origin_coordinate=origin, axes=[arr.copy() for _ in range(dimension)])


# ------------------------------------------------------------------------------------ model specs (JSON-able, for replays)
def real_model_specs(rng: random.Random):
    """HEM, Merton, VG, CGMY (finite and infinite variation) with randomised parameters"""
    u = rng.uniform
    return [
        {"family": "HEM", "kwargs": dict(sigma=u(0.05, 0.3), p=u(0.3, 0.7), eta1=u(15, 40), eta2=u(15, 50), intensity=u(1, 8))},
        {"family": "MERTON", "kwargs": dict(sigma=u(0.05, 0.2), mu_j=u(0.0, 0.05), sigma_j=u(0.03, 0.1), intensity=u(1, 8))},
        {"family": "VG", "kwargs": dict(sigma=u(0.08, 0.3), nu=u(0.02, 0.3), theta=u(-0.2, 0.2))},
        {"family": "CGMY", "kwargs": dict(c=u(0.05, 1.0), g=u(8, 20), m=u(8, 25), y=u(0.2, 0.8))},
        {"family": "CGMY", "kwargs": dict(c=u(0.02, 0.2), g=u(8, 20), m=u(8, 25), y=u(1.1, 1.6))},
    ]


def step_spec(measure: StepMeasure, a=0.0, sigma=0.0, representation="CENTER"):
    return {"family": "STEP", "breaks": [str(b) for b in measure.breaks], "dens": [str(d) for d in measure.dens],
            "fv": measure.finite_variation, "strict": measure.strict, "a": str(Fraction(a)), "sigma": str(Fraction(sigma)),
            "representation": representation}


def build_model(spec: dict, exponential: bool = False, spot: float = 100.0, r: float = 0.03, d: float = 0.01):
    if spec["family"] == "STEP":
        nu = StepMeasure([Fraction(b) for b in spec["breaks"]], [Fraction(x) for x in spec["dens"]],
                         finite_variation=spec.get("fv", True), strict=spec.get("strict", True))
        m = StepModel(nu, a=float(Fraction(spec.get("a", "0"))), sigma=float(Fraction(spec.get("sigma", "0"))),
                      representation=LevyRepresentation[spec.get("representation", "CENTER")])
        if exponential:
            from rpylib.model.levymodel.exponentialoflevymodel import ExponentialOfLevyModel
            return ExponentialOfLevyModel(spot=spot, r=r, d=d, levy_model=m)
        return m
    from rpylib.model.utils import helper_model
    mt = ModelType[spec["family"]]
    if exponential:
        return helper_model(mt, True)(spot=spot, r=r, d=d, **spec["kwargs"])
    return helper_model(mt, False)(**spec["kwargs"])


def build_copula_model(specs: list, copula: str = "independent", theta: float = 0.7, eta: float = 0.3):
    from rpylib.model.levycopulamodel import LevyCopulaModel
    from rpylib.distribution.levycopula import IndependentComponentsCopula, ClaytonCopula, DependentComponentsCopula
    cop = {"independent": IndependentComponentsCopula, "dependent": DependentComponentsCopula}.get(copula)
    cop = cop() if cop else ClaytonCopula(theta=theta, eta=eta)
    return LevyCopulaModel([build_model(s) for s in specs], cop)


# ------------------------------------------------------------------------------------ 2-d density tables and their Levy copula
class Table2:
    """Levy measure on R^2 with piecewise-constant dyadic density: pieces (lo1, hi1, lo2, hi2, d), each inside one closed
    quadrant.  Its margins are step measures; `copula()` is the Levy copula of this very measure (Kallsen-Tankov:
    F(u1,u2) = U(U1^{-1}(u1), U2^{-1}(u2)) with the signed tail integrals), evaluated in exact rational arithmetic.
    With a grid whose end points cover the support, LevyCopulaModel.mass of any rectangle is the integral of the density
    and every float operation is exact."""

    def __init__(self, pieces):
        self.pieces = [tuple(Fraction(v) for v in p) for p in pieces]
        for lo1, hi1, lo2, hi2, d in self.pieces:
            assert lo1 < hi1 and lo2 < hi2 and d >= 0
            assert (lo1 >= 0 or hi1 <= 0) and (lo2 >= 0 or hi2 <= 0), "a piece must lie in one closed quadrant"

    def mass_q(self, a, b) -> Fraction:
        tot = Fraction(0)
        for lo1, hi1, lo2, hi2, d in self.pieces:
            l1, h1 = max(Fraction(a[0]), lo1), min(Fraction(b[0]), hi1)
            l2, h2 = max(Fraction(a[1]), lo2), min(Fraction(b[1]), hi2)
            if l1 < h1 and l2 < h2:
                tot += d * (h1 - l1) * (h2 - l2)
        return tot

    def margin(self, k: int, strict: bool = True) -> StepMeasure:
        cuts = sorted({p[2 * k] for p in self.pieces} | {p[2 * k + 1] for p in self.pieces})
        dens = []
        for lo, hi in zip(cuts, cuts[1:]):
            d = Fraction(0)
            for p in self.pieces:
                if p[2 * k] <= lo and hi <= p[2 * k + 1]:
                    d += p[4] * (p[3 - 2 * k] - p[2 - 2 * k])
            dens.append(d)
        return StepMeasure(cuts, dens, finite_variation=True, strict=strict)

    def support_bound(self) -> Fraction:
        return max(max(abs(v) for v in p[:4]) for p in self.pieces)

    def coq(self) -> str:
        from common import qlit, lst
        return lst(["(" + ", ".join(qlit(v) for v in p) + ")" for p in self.pieces])

    def copula(self):
        return TableCopula(self)


class TableCopula:
    def __init__(self, table: Table2):
        from rpylib.distribution.levycopula import LevyCopula  # noqa (duck-typed: LevyCopulaModel only calls it)
        self.table = table
        self.margins = [table.margin(0, strict=False), table.margin(1, strict=False)]
        self.big = table.support_bound() + 1

    def __repr__(self):
        return "TableCopula()"

    def _inverse(self, k: int, u: Fraction):
        """(x, positive_side) with signed tail integral U_k(x) = u (x = 0 when |u| exceeds the half-line mass)"""
        nu = self.margins[k]
        if u > 0:
            rest = u
            for lo, hi, d in reversed(nu.pieces()):
                if hi <= 0:
                    break
                lo = max(lo, Fraction(0))
                m = d * (hi - lo)
                if m >= rest and d > 0:
                    return hi - rest / d, True
                rest -= m
            return Fraction(0), True
        rest = -u
        for lo, hi, d in nu.pieces():
            if lo >= 0:
                break
            hi = min(hi, Fraction(0))
            m = d * (hi - lo)
            if m >= rest and d > 0:
                return lo + rest / d, False
            rest -= m
        return Fraction(0), False

    def __call__(self, us) -> float:
        us = [float(v) for v in us]
        if any(v == 0 for v in us):
            return 0.0
        pts = []
        for k, v in enumerate(us):
            if v == math.inf:
                pts.append((Fraction(0), True))
            elif v == -math.inf:
                pts.append((Fraction(0), False))
            else:
                pts.append(self._inverse(k, Fraction(v)))
        a = [x if pos else -self.big for x, pos in pts]
        b = [self.big if pos else x for x, pos in pts]
        sgn = 1
        for _, pos in pts:
            sgn *= 1 if pos else -1
        val = sgn * self.table.mass_q(a, b)
        x = float(val)
        return x


def table_copula_model(table: Table2, a=(0.0, 0.0), sigma=(0.0, 0.0), strict=True, fv=(True, True)):
    from rpylib.model.levycopulamodel import LevyCopulaModel
    margins = [table.margin(k, strict=strict and all(fv)) for k in (0, 1)]
    for m, f in zip(margins, fv):
        m.finite_variation = f      # an 'infinite variation' flag makes the library add the central cell's variance (nquad: inexact calls)
    models = [StepModel(margins[k], a=a[k], sigma=sigma[k]) for k in (0, 1)]
    return LevyCopulaModel(models, table.copula())

#!/venv/bin/python
"""Self-test of the TIE layer:  /venv/bin/python harness/tie_selftest.py [--table]      (RPYLIB_REPO selects the source tree)

 1. regenerates the GenTie* modules of harness/specs/TIE*.py from $RPYLIB_REPO (default /repo) with py2coq +
    harness/py2coq_loops.py -- a function that left the translatable subset is a failure (fail closed);
 2. rebuilds coq/Proofs/Tie_*.vo (the equality lemmas generated definition = hand model) through the same locked
    regen-and-make the checks use -- a lemma that no longer holds of the regenerated definition is a failure;
 3. re-checks every lemma of TABLE by name (`Print Assumptions`): it must exist and depend on nothing but the Coq kernel
    and standard-library axioms;
 4. runs the hygiene grep on the TIE files;
 5. spot check: the generated definitions against the running Python functions on dyadic inputs (exact, vm_compute).
Exit code 0 = all lemmas hold of the current source; 1 otherwise.  `--table` prints the integration table.
`--mutations` (after a green plain run): applies each change of MUTATIONS to a private copy of the source and shows that the
translator refuses it or the equality lemmas stop compiling (nothing under coq/ is touched)."""
import importlib
import os
import pkgutil
import re
import sys
import time
from pathlib import Path

HERE = Path(__file__).resolve().parent
sys.path.insert(0, str(HERE))
import common  # noqa: E402

# generated module, source function(s), equality lemma, file of the lemma, hand model, property that should list the module
TABLE = [
    ("GenTieDrift", "rpylib/process/markovchain/markovchain.py: compute_mu_h",
     "gen_compute_mu_h_eq_model", "Tie_Drift", "Model.Drift.compute_mu_h", "C04"),
    ("GenTieChain", "rpylib/distribution/samplingfactory.py: create_q_vector",
     "gen_create_q_vector_eq_model", "Tie_Chain", "Model.Chain.q_vector", "C01 (C04 mean_of_rates, C19)"),
    ("GenTieChain", "rpylib/grid/spatial.py: CTMCGrid.left_point",
     "gen_left_point_eq_model", "Tie_Chain", "Model.Grid.left_point", "C13, C01"),
    ("GenTieChain", "rpylib/grid/spatial.py: CTMCGrid.right_point",
     "gen_right_point_eq_model", "Tie_Chain", "Model.Grid.right_point", "C13, C01"),
    ("GenTieChain", "rpylib/grid/spatial.py: CTMCGrid.middle (float, float)",
     "gen_middle_eq_model", "Tie_Chain", "Model.Grid.amid", "C13, C01, C03"),
    ("GenTieBst", "rpylib/distribution/variate/binarysearchtree.py: BinarySearchTree.sample_with_u (while loop)",
     "gen_sample_with_u_eq_model", "Tie_Bst", "Model.Bst.bst_sample", "C02"),
    ("GenTieBst", "  (same; the fuel K+1 of the generated loop always suffices, the error value -1 is never returned)",
     "gen_sample_with_u_fuel_suffices", "Tie_Bst", "Model.Bst.bst_descend", "C02"),
    ("GenTieCoupling", "rpylib/process/coupling/couplingmarkovchain.py: CouplingSimulation.probability_to_right_jump",
     "gen_probability_to_right_jump_eq_model", "Tie_Coupling", "Model.Coupling1d.prob_right", "C03"),
    ("GenTieCoupling", "rpylib/process/coupling/couplingmarkovchain.py: CouplingSimulation.coupling_state",
     "gen_coupling_state_eq_model", "Tie_Coupling", "Model.Coupling1d.coupling_state", "C03"),
    # ---- second pass (TIE2)
    ("GenTieChain", "rpylib/distribution/samplingfactory.py: compute_intensity_of_jumps (1-d model; comprehension, product, next unrolled)",
     "gen_compute_intensity_of_jumps_1d_eq_model", "Tie_Chain", "Model.Chain.intensity1", "C01 (C19 default rate, C02 jump law)"),
    ("GenTieChain2d", "rpylib/distribution/samplingfactory.py: compute_intensity_of_jumps (2-d model, product grid; 8 blocks unrolled)",
     "gen_compute_intensity_of_jumps_2d_eq_model", "Tie_Chain2d", "Model.Chain.intensity2", "C01 (2-d rates), C19"),
    ("GenTieAlias", "rpylib/distribution/variate/alias.py: AliasMethod._draw_with_u (np.uint = floor for u >= 0)",
     "gen_draw_with_u_eq_model", "Tie_Alias", "Model.Alias.alias_draw", "C02"),
    ("GenTiePaths", "rpylib/process/markovchain/markovchain.py: chain_over_intervals (list of lists)",
     "gen_chain_over_intervals_eq_model", "Tie_Paths", "Model.Paths.mc_jump_values / chain_running", "C15"),
]
TABLE += [
    ("GenTieChain", "rpylib/grid/spatial.py: left_point / right_point, Coordinate1D variants (what the intensity and the coupling dispatch to)",
     "gen_left_point_c1d_eq_int", "Tie_Chain", "GenTieChain.left_point (int variant)", "C01, C03"),
    ("GenTieChain", "  (same)", "gen_right_point_c1d_eq_int", "Tie_Chain", "GenTieChain.right_point (int variant)", "C01, C03"),
    ("GenTieChain", "rpylib/grid/grid.py: Grid.__getitem__ (Coordinate1D)", "gen_getitem_c1d_eq_nth", "Tie_Chain", "py_nth", "C03"),
    ("GenTieChain", "rpylib/model/levymodel/levymodel.py: LevyModel.mass on 1-tuples", "gen_levymodel_mass_1d_eq_integrate", "Tie_Chain", "nu.integrate", "C01"),
    ("GenTieChain", "rpylib/grid/spatial.py: left_point, CoordinateND variant (two axes)", "gen_left_point_nd2_eq_per_axis", "Tie_Chain", "left_point per axis", "C01 (2-d), C19"),
    ("GenTieChain", "rpylib/grid/spatial.py: right_point, CoordinateND variant (clamp len(axes[0]) on both axes)", "gen_right_point_nd2_eq_first_axis_clamp", "Tie_Chain", "right_point on axis 0, first-axis clamp on axis 1", "C01 (2-d), C19"),
    ("GenTieChain", "rpylib/grid/spatial.py: middle, tuple variant", "gen_middle_nd2_eq_per_axis", "Tie_Chain", "middle per component", "C01 (2-d), C19"),
    ("GenTieChain2d", "rpylib/distribution/samplingfactory.py: compute_intensity_of_jumps (2-d) over the translated CoordinateND variants",
     "gen_compute_intensity_of_jumps_2d_nd_eq_model", "Tie_Chain2d", "Model.Chain.intensity2 (when clamp_agrees)", "C01 (2-d rates), C19"),
    ("GenTieChain2d", "  (same) = the spec's per-axis reading when clamp_agrees", "gen_compute_intensity_of_jumps_2d_nd_eq_spec_reading", "Tie_Chain2d",
     "GenTieChain2d.compute_intensity_of_jumps_2d", "C01"),
]
EXAMPLES = [("Tie_Chain", "gen_right_point_nd2_first_axis_clamp_differs"), ("Tie_Chain2d", "gen_compute_intensity_of_jumps_2d_nd_clamp_refuted"),
            ("Tie_Chain2d", "gen_compute_intensity_of_jumps_2d_nd_runs")]
EXAMPLES += [("Tie_Drift", "gen_compute_mu_h_runs"), ("Tie_Chain", "gen_create_q_vector_runs"),
            ("Tie_Bst", "gen_sample_with_u_runs"), ("Tie_Coupling", "gen_coupling_state_runs"),
            ("Tie_Chain", "gen_compute_intensity_of_jumps_1d_runs"), ("Tie_Paths", "gen_chain_over_intervals_runs"),
            ("Tie_Chain2d", "gen_compute_intensity_of_jumps_2d_runs"), ("Tie_Alias", "gen_draw_with_u_runs")]


def tie_modules():
    import specs
    mods = []
    for m in sorted(pkgutil.iter_modules(specs.__path__), key=lambda m: m.name):
        if m.name.startswith("TIE"):
            mods.extend(importlib.import_module(f"specs.{m.name}").SPECS)
    return mods


GROUP_MODULES = {"mu_h": ["GenTieDrift", "GenTieChain"], "q_vector": ["GenTieChain"], "prob_right": ["GenTieCoupling", "GenTieChain"],
                 "bst": ["GenTieBst"], "intensity_1d": ["GenTieChain"], "intensity_2d": ["GenTieChain2d", "GenTieChain"],
                 "alias_draw": ["GenTieAlias"], "chain_over_intervals": ["GenTiePaths"],
                 "dispatch_c1d": ["GenTieChain"], "dispatch_nd2": ["GenTieChain"], "intensity_2d_nd": ["GenTieChain2d", "GenTieChain"]}


def selftest_spotchecks(modules, seed=20260930, n=12, name="spot_prop"):
    """for a property's correspond(res): the spot check restricted to the groups whose generated modules are all in `modules`
    (the property's GEN_DEPS, already regenerated and compiled by the driver), n cases per group, one coqc run (a few seconds).
    Returns {group: (cases, [bad indices])}; the caller does res.count(...) per case and res.broke("correspondence TIE <group>", ..)
    on a non-empty list.  The generated definitions (not the hand models) are run against the REAL functions on real
    CTMCGrid / Coordinate objects -- this is what sees the dispatch, __init__ and caller-visible edits the translator cannot."""
    return spot_check(seed=seed, n=n, only=set(modules), name=name)


def spot_check(seed=20260930, n=40, only=None, name="spot"):
    """step 5: the GENERATED definitions (not the hand models) against the running Python functions on dyadic inputs,
    exact comparison by vm_compute -- guards the reading of Python ints / indices / loops by py2coq_loops itself"""
    import random
    from fractions import Fraction
    import numpy as np
    sys.path.insert(0, str(HERE / "shims"))
    sys.path.insert(0, str(common.REPO))
    from rpylib.grid.spatial import CTMCGrid
    from rpylib.process.markovchain.markovchain import compute_mu_h
    from rpylib.distribution.samplingfactory import create_q_vector
    from rpylib.distribution.variate.binarysearchtree import BinarySearchTree
    from rpylib.process.coupling.couplingmarkovchain import CouplingSimulation
    from rpylib.process.markovchain.markovchain import chain_over_intervals
    from rpylib.distribution.samplingfactory import compute_intensity_of_jumps
    from rpylib.model.levymodel.levymodel import LevyModel
    from rpylib.distribution.variate.alias import AliasMethod, create_alias
    import types
    q, z, L = common.qlit, common.zlit, common.lst
    rnd = random.Random(seed)
    rnd2 = random.Random(seed + 1)   # second-pass inputs: own stream, the first-pass cases stay what they were

    class Nu:  # mass(a, b) = (b - a)/2 + (b^2 - a^2)/4: exact in floats on the dyadic inputs below
        @staticmethod
        def integrate(a, b):
            return (b - a) * 0.5 + (b * b - a * a) * 0.25
    mass_coq = "(fun a b : Q => (b - a) * (1 # 2) + (b * b - a * a) * (1 # 4))%Q"
    stub = types.SimpleNamespace(levy_triplet=types.SimpleNamespace(nu=Nu))

    class Model1d:  # the 1-d model as compute_intensity_of_jumps sees it; mass is LevyModel.mass itself (unwraps the 1-tuples)
        @staticmethod
        def dimension_model():
            return 1

        @staticmethod
        def mass(a, b):
            return LevyModel.mass(stub, a=a, b=b)
    class Model2d:  # rectangle mass, exact in floats on the dyadic grids below
        @staticmethod
        def dimension_model():
            return 2

        @staticmethod
        def mass(a, b):
            return (b[0] - a[0]) * (b[1] - a[1]) * 0.25 + (b[0] * a[1]) * 0.125
    mass2_coq = "(fun a b : Q * Q => (fst b - fst a) * (snd b - snd a) * (1 # 4) + (fst b * snd a) * (1 # 8))%Q"
    mu, qv, cp, bs, ij, co, i2, al = [], [], [], [], [], [], [], []
    d1, dn, i2n = [], [], []
    rnd3 = random.Random(seed + 2)   # wave 8 groups: own stream
    for _ in range(n):
        m = rnd.randint(1, 5)
        left = sorted({-rnd.randint(1, 64) / 8 for _ in range(m)})
        right = sorted({rnd.randint(1, 64) / 8 for _ in range(m)})
        axis = np.array(left + [0.0] + right)
        o = len(left)
        grid = CTMCGrid(h=min(right[0], -left[-1]), origin_coordinate=o, axes=[axis])
        ax = L([q(x) for x in axis])
        mu.append(common.tup([ax, z(o), q(Fraction(float(compute_mu_h(Nu, grid, axis, o))))]))
        qv.append(common.tup([ax, z(o), L([q(Fraction(float(x))) for x in create_q_vector(Nu, grid)])]))
        ij.append(common.tup([ax, z(o), q(Fraction(float(compute_intensity_of_jumps(Model1d, grid))))]))
        vals = [[rnd2.randint(-64, 64) / 16 for _ in range(rnd2.choice([0, 0, 1, 2, 3]))] for _ in range(rnd2.randint(0, 5))]
        co.append(common.tup([L([L([q(x) for x in v]) for v in vals]),
                              L([q(Fraction(float(x))) for x in chain_over_intervals([np.array(v) for v in vals])])]))
        left2 = sorted(-rnd2.randint(1, 64) / 8 for _ in range(o))            # second axis: same length and origin coordinate
        right2 = sorted(rnd2.randint(1, 64) / 8 for _ in range(len(axis) - o - 1))
        axis2 = np.array(left2 + [0.0] + right2)
        grid2 = CTMCGrid(h=grid.h, origin_coordinate=o, axes=[axis, axis2])
        i2.append(common.tup([ax, L([q(x) for x in axis2]), z(o), q(Fraction(float(compute_intensity_of_jumps(Model2d, grid2))))]))
        # wave 8: the dispatched variants on the REAL Coordinate objects (grid.origin_coordinate [+ inc])
        inc3 = rnd3.randint(-o, len(axis) - o - 1)
        pos = grid.origin_coordinate + inc3
        d1.append(common.tup([ax, z(o + inc3), q(Fraction(float(grid.left_point(pos)))), q(Fraction(float(grid.right_point(pos)))),
                              q(Fraction(float(grid[pos])))]))
        degenerate = rnd3.random() < 0.2                                     # origin on the last point of a SHORTER first axis
        axA = np.array(left + [0.0]) if degenerate else axis
        rightB = sorted(rnd3.randint(1, 64) / 8 for _ in range(rnd3.randint(1, 4)))   # second axis of another length
        axB = np.array(left2 + [0.0] + rightB)
        gridn = CTMCGrid(h=grid.h, origin_coordinate=o, axes=[axA, axB])
        lp, rp = gridn.left_point(gridn.origin_coordinate), gridn.right_point(gridn.origin_coordinate)
        ml, mr = gridn.middle(lp, gridn.origin), gridn.middle(gridn.origin, rp)
        axa, axb = L([q(x) for x in axA]), L([q(x) for x in axB])
        dn.append(common.tup([axa, axb, z(o)] + [q(Fraction(float(v))) for v in (*lp, *rp, *ml, *mr)]))
        i2n.append(common.tup([axa, axb, z(o), q(Fraction(float(compute_intensity_of_jumps(Model2d, gridn))))]))
        ka = rnd2.randint(1, 8)
        wa = [rnd2.randint(1, 16) for _ in range(ka)]
        sampler = AliasMethod.__new__(AliasMethod)      # the tables of the real construction, one draw with a given uniform
        sampler.K = ka
        sampler.J, sampler.q = create_alias(np.array([x / sum(wa) for x in wa], dtype=float))
        ua = rnd2.randint(0, 1023) / 1024
        al.append(common.tup([z(ka), L([q(Fraction(float(x))) for x in sampler.q]), L([z(int(x)) for x in sampler.J]), q(ua),
                              z(int(sampler._draw_with_u(ua)))]))
        inc = rnd.choice([i for i in range(-o, len(axis) - o) if i != 0])
        p = float(CouplingSimulation.probability_to_right_jump(grid, Nu.integrate, inc))
        cp.append(common.tup([ax, z(o), z(inc), q(Fraction(p))]))
        k = rnd.randint(1, 7)
        w = [rnd.randint(1, 8) for _ in range(k + 1)]
        tot = sum(w)
        probs = np.array([Fraction(x, 1) / tot for x in w], dtype=float) if tot in (8, 16, 32) else np.array([1.0 / (k + 1)] * (k + 1))
        tree = BinarySearchTree(probs, states=lambda i: i)
        u = rnd.randint(0, 1023) / 1024
        bs.append(common.tup([z(tree.K), L([q(Fraction(float(x))) for x in tree.bst]), q(u), z(int(tree.sample_with_u(u)))]))
    used = sorted({m for g, ms in GROUP_MODULES.items() if only is None or set(ms) <= only for m in ms})
    hdr = ("From Coq Require Import ZArith QArith Qabs List Bool.\nFrom RV Require Import Base.QB Base.Corr Proofs.Tie_PyLoops "
           + " ".join(f"Gen.{m}" for m in used) + ".\n")
    qq = lambda a, b: f"(andb (Qeq_bool (fst {a}) (fst {b})) (Qeq_bool (snd {a}) (snd {b})))"
    groups = [
        ("mu_h", "list Q * Z * Q", f"fun c => match c with (xs, o, e) => Qeq_bool (GenTieDrift.compute_mu_h {mass_coq} GenTieChain.middle xs o) e end", mu),
        ("q_vector", "list Q * Z * list Q", f"fun c => match c with (xs, o, e) => qlist_eqb (GenTieChain.create_q_vector {mass_coq} GenTieChain.middle xs o) e end", qv),
        ("prob_right", "list Q * Z * Z * Q", f"fun c => match c with (xs, o, i, e) => Qle_bool (Qabs (GenTieCoupling.probability_to_right_jump {mass_coq} GenTieChain.middle xs o i - e)) (1 # 1125899906842624) end", cp),   # one float division: 2^-50
        ("bst", "Z * list Q * Q * Z", "fun c => match c with (k, t, u, e) => Z.eqb (GenTieBst.sample_with_u k t u) e end", bs),
        ("intensity_1d", "list Q * Z * Q", f"fun c => match c with (xs, o, e) => Qeq_bool (GenTieChain.compute_intensity_of_jumps_1d {mass_coq} GenTieChain.middle xs o) e end", ij),
        ("intensity_2d", "list Q * list Q * Z * Q", f"fun c => match c with (xs, ys, o, e) => Qeq_bool (GenTieChain2d.compute_intensity_of_jumps_2d {mass2_coq} GenTieChain.middle xs ys o) e end", i2),
        ("alias_draw", "Z * list Q * list Z * Q * Z", "fun c => match c with (k, qs, js, u, e) => Z.eqb (GenTieAlias.draw_with_u k qs js u) e end", al),
        ("chain_over_intervals", "list (list Q) * list Q", "fun c => match c with (vs, e) => qlist_eqb (GenTiePaths.chain_over_intervals vs) e end", co),
    ]
    groups += [
        ("dispatch_c1d", "list Q * Z * Q * Q * Q", "fun c => match c with (xs, p, l, r, v) => andb (Qeq_bool (GenTieChain.left_point_c1d xs p) l) "
         "(andb (Qeq_bool (GenTieChain.right_point_c1d xs p) r) (Qeq_bool (GenTieChain.getitem_c1d xs p) v)) end", d1),
        ("dispatch_nd2", "list Q * list Q * Z * Q * Q * Q * Q * Q * Q * Q * Q",
         "fun c => match c with (xs, ys, o, l0, l1, r0, r1, ml0, ml1, mr0, mr1) => "
         "let lp := GenTieChain.left_point_nd2 xs ys o o in let rp := GenTieChain.right_point_nd2 xs ys o o in "
         f"andb (andb {qq('lp', '(l0, l1)')} {qq('rp', '(r0, r1)')}) "
         f"(andb {qq('(GenTieChain.middle_nd2 lp (0, 0))', '(ml0, ml1)')} {qq('(GenTieChain.middle_nd2 (0, 0) rp)', '(mr0, mr1)')}) end", dn),
        ("intensity_2d_nd", "list Q * list Q * Z * Q", f"fun c => match c with (xs, ys, o, e) => Qeq_bool (GenTieChain2d.compute_intensity_of_jumps_2d_nd {mass2_coq} xs ys o) e end", i2n),
    ]
    if only is not None:
        groups = [g for g in groups if set(GROUP_MODULES[g[0]]) <= only]
    if not groups:
        return {}
    bad = common.coq_bad_indices("TIE", name, hdr, groups)
    return {g: (len(c), bad[g]) for (g, _, _, c) in groups}


# (generated module, proof file, source file, old text, new text, what the change is)
MUTATIONS = [
    ("GenTieChain", "Tie_Chain", "rpylib/distribution/samplingfactory.py", "    next(cartesian_product)\n", "",
     "the central block [h_l, h_r] is no longer dropped from the intensity"),
    ("GenTieChain", "Tie_Chain", "rpylib/distribution/samplingfactory.py", "[grid.axes[k][0], h_l]", "[grid.axes[k][0], h_r]",
     "the left outer block reaches to h_r"),
    ("GenTieChain2d", "Tie_Chain2d", "rpylib/distribution/samplingfactory.py", "a, b = zip(*c_set)", "b, a = zip(*c_set)",
     "lower and upper corners of every block swapped"),
    ("GenTiePaths", "Tie_Paths", "rpylib/process/markovchain/markovchain.py", "level = pieces[-1][-1]", "level = pieces[-1][0]",
     "the carried level is the first instead of the last value of the interval"),
    ("GenTiePaths", "Tie_Paths", "rpylib/process/markovchain/markovchain.py", "if interval_values.shape[0]:", "if interval_values.shape[0] - 1:",
     "intervals with exactly one jump are skipped"),
    ("GenTiePaths", "Tie_Paths", "rpylib/process/markovchain/markovchain.py", "pieces.append(level + interval_values)",
     "pieces.insert(0, level + interval_values)", "pieces are stacked in reverse (outside the translated subset)"),
    ("GenTieAlias", "Tie_Alias", "rpylib/distribution/variate/alias.py", "        if v < self.q[x]:\n            return x\n        return self.J[x]",
     "        if v <= self.q[x]:\n            return x\n        return self.J[x]", "the column is kept on v = q[x] too"),
    ("GenTieAlias", "Tie_Alias", "rpylib/distribution/variate/alias.py", "        v = ku - x\n", "        v = ku - x - 1\n", "the remainder is shifted"),
    ("GenTieChain", "Tie_Chain", "rpylib/distribution/samplingfactory.py", "from itertools import product", "from itertools import combinations as product",
     "`product` is no longer itertools.product"),
]
_SP, _SF, _GR, _LM = "rpylib/grid/spatial.py", "rpylib/distribution/samplingfactory.py", "rpylib/grid/grid.py", "rpylib/model/levymodel/levymodel.py"
_MC, _AL, _BS = "rpylib/process/markovchain/markovchain.py", "rpylib/distribution/variate/alias.py", "rpylib/distribution/variate/binarysearchtree.py"
# wave 8: the 14 edits OUTSIDE what the translator read at commit 7959957 that audit5a (X-c / X-d) found silent, + 3 of the same kinds
AUDIT_MUTATIONS = [
    ("GenTieChain", "Tie_Chain", _SP, "        return self.axes[0][max(0, coordinate.value - 1)]", "        return self.axes[0][max(0, coordinate.value - 2)]",
     "A1 (me L1 = a5coup) left_point, Coordinate1D variant: -1 -> -2"),
    ("GenTieChain", "Tie_Chain", _SP, "        return tuple(self.axes[k][max(0, c - 1)] for k, c in enumerate(coordinate))",
     "        return tuple(self.axes[k][max(0, c - 2)] for k, c in enumerate(coordinate))", "A2 (L2) left_point, CoordinateND variant: c-1 -> c-2"),
    ("GenTieChain", "Tie_Chain", _SP, "        return tuple(0.5 * (x + xp) for x, xp in zip(xi, xip))", "        return tuple(0.25 * (x + xp) for x, xp in zip(xi, xip))",
     "A3 (L3) middle, tuple variant: 0.5 -> 0.25"),
    ("GenTieChain", "Tie_Chain", _SP, "        self.origin = 0.0\n", "        self.origin = 1.0\n", "A4 (L4) CTMCGrid.__init__: origin 1.0"),
    ("GenTieChain", "Tie_Chain", _SP, "            self.origin_coordinate = Coordinates([origin_coordinate] * dimension)",
     "            self.origin_coordinate = Coordinates([origin_coordinate + k for k in range(dimension)])", "A5 (L5) origin coordinate differs per axis"),
    ("GenTieChain", "Tie_Chain", _SF, "def create_q_vector(levy_measure: LevyMeasure, grid: CTMCGrid) -> np.array:",
     "def _neg(f):\n    return lambda *a: -f(*a)\n\n\n@_neg\ndef create_q_vector(levy_measure: LevyMeasure, grid: CTMCGrid) -> np.array:",
     "A6 (L13) a decorator that negates create_q_vector"),
    ("GenTieChain", "Tie_Chain", _SF, "def create_vec_jump_matrix(", "def create_q_vector(levy_measure, grid):\n    return np.ones(len(grid.axes[0]))\n\n\ndef create_vec_jump_matrix(",
     "A7 (L14) a second def of create_q_vector (the one Python binds)"),
    ("GenTieChain", "Tie_Chain", _LM, "            return self.levy_triplet.nu.integrate(a=a[0], b=b[0])", "            return 2 * self.levy_triplet.nu.integrate(a=a[0], b=b[0])",
     "A8 (L34) LevyModel.mass on 1-tuples doubled"),
    ("GenTieChain", "Tie_Chain", _GR, "        return self.axes[0][coordinates.value]", "        return self.axes[0][coordinates.value - 1]",
     "A9 Grid.__getitem__ (grid[position] of the coupling) shifted"),
    ("GenTieCoupling", "Tie_Coupling", "rpylib/process/coupling/couplingmarkovchain.py", "    @staticmethod\n    def probability_to_right_jump", "    @classmethod\n    def probability_to_right_jump",
     "A10 decorator of probability_to_right_jump changed"),
    ("GenTieDrift", "Tie_Drift", _MC, "import numpy as np\n", "import numpy as np\nimport math as np\n", "A11 module alias np re-bound"),
    ("GenTieAlias", "Tie_Alias", _AL, "import numpy as np\n", "import numpy as np\nnp = type('P', (), {'uint': staticmethod(round)})\n", "A12 np re-bound by an assignment (np.uint = round)"),
    ("GenTieBst", "Tie_Bst", _BS, "    def sample_with_u(self, u):", "    def sample_with_u(self, u):\n        return 0\n\n    def sample_with_u(self, u):", "A13 (extra) two defs of sample_with_u in the class"),
    ("GenTieChain", "Tie_Chain", _SP, "    @right_point.register\n    def _(self, coordinate: Coordinate1D) -> float:\n        return self.axes[0][min(len(self.axes[0]) - 1, coordinate.value + 1)]",
     "    @right_point.register\n    def _(self, coordinate: Coordinate1D) -> float:\n        return self.axes[0][min(len(self.axes[0]) - 1, coordinate.value + 2)]",
     "A14 (extra) right_point, Coordinate1D variant: +1 -> +2"),
    ("GenTieChain", "Tie_Chain", _SP, "        grid_length = len(self.axes[0])  # FIXME: fixed length across all axes", "        grid_length = len(self.axes[1])",
     "A15 (extra) right_point, CoordinateND variant clamps with the second axis"),
]
# edits on the CALLER side of a translated function (the translator cannot see them; the properties' correspondence groups do):
# counted as not caught
AUDIT_CALLER_SIDE = [
    ("GenTieDrift", "Tie_Drift", _MC, "        model_tilde.levy_triplet.set_representation(LevyRepresentation.TILDE)", "        model_tilde.levy_triplet.set_representation(LevyRepresentation.CENTER)",
     "B1 (a5coup) MarkovChainProcess.__init__ switches to CENTER: caller of compute_mu_h (C04 exact drift group)"),
    ("GenTieDrift", "Tie_Drift", _MC, "        v = 0.0 if self.model.jump_of_finite_variation() else 1.0", "        v = 1.0 if self.model.jump_of_finite_variation() else 0.0",
     "B2 (a5coup) initialisation: cut-off v inverted: caller of compute_mu_h (C04)"),
    ("GenTieAlias", "Tie_Alias", _AL, "gen = [self._draw_with_u(u) for u in us]", "gen = [self._draw_with_u(u * u) for u in us]", "B3 (a5samp) AliasMethod.sample feeds u*u (C02 sampler stream)"),
    ("GenTieBst", "Tie_Bst", _BS, "return np.array([self.sample_with_u(u) for u in us])", "return np.array([self.sample_with_u(1 - u) for u in us])", "B4 (a5samp) BinarySearchTree.sample feeds 1-u (C02)"),
]


def mutations(muts=None, expect_missed=False):
    """every change of MUTATIONS applied to a private copy of the source file: the module is regenerated from the copy and the
    proof file recompiled against it in build/TIE/mut (the shared coq/Gen is not touched).  Caught = the translator refuses
    the function (fail closed) or the equality lemmas no longer compile."""
    import shutil
    import subprocess
    import py2coq
    from py2coq_specs import SPECS
    root = common.BUILD / "TIE" / ("mut" if muts is None else "mut_audit")
    muts = MUTATIONS if muts is None else muts
    missed = 0
    for i, (mod, proof, file, old, new, what) in enumerate(muts):
        d = root / f"m{i}"
        shutil.rmtree(d, ignore_errors=True)
        (d / "repo" / Path(file).parent).mkdir(parents=True)
        (d / "Mut").mkdir()
        text = (common.REPO / file).read_text()
        if text.count(old) != 1:
            print(f"  mutation {i}: source text not found exactly once: {old!r}")
            missed += 1
            continue
        spec = SPECS[mod]
        for f in {spec["file"]} | {fn["file"] for fn in spec["funcs"] if "file" in fn}:
            (d / "repo" / Path(f).parent).mkdir(parents=True, exist_ok=True)
            shutil.copy(common.REPO / f, d / "repo" / f)
        (d / "repo" / Path(file).parent).mkdir(parents=True, exist_ok=True)
        (d / "repo" / file).write_text(text.replace(old, new))
        try:
            compile(text.replace(old, new), file, "exec")            # the mutant is valid Python
        except SyntaxError as e:
            print(f"  mutation {i}: the mutant is not valid Python: {e}")
            missed += 1
            continue
        try:
            gen = py2coq.generate_module(d / "repo", mod, spec)
        except py2coq.Unsupported as e:
            print(f"  mutation {i} ({what}): caught, translator refuses: {str(e)[:100]}")
            continue
        (d / "Mut" / f"{mod}.v").write_text(gen)
        pf = (common.COQ / "Proofs" / f"{proof}.v").read_text()
        assert f" Gen.{mod}" in pf
        pf = pf.replace(f" Gen.{mod}", "", 1).replace("Import ListNotations.", f"From Mut Require Import {mod}.\nImport ListNotations.", 1)
        (d / "Mut" / f"{proof}.v").write_text(pf)
        rc = 0
        for f in (f"{mod}.v", f"{proof}.v"):
            r = subprocess.run(f"ulimit -v 8000000; timeout 300 coqc -Q {common.COQ} RV -Q {d / 'Mut'} Mut {d / 'Mut' / f}", shell=True,
                               capture_output=True, text=True)
            rc = rc or r.returncode
            if r.returncode:
                err = " ".join(r.stderr.split())[-160:]
                print(f"  mutation {i} ({what}): caught, {f} no longer compiles: ...{err}")
                break
        if rc == 0:
            print(f"  mutation {i} ({what}): MISSED -- the lemmas still hold of the changed source")
            missed += 1
    print(f"tie_selftest --mutations: {len(muts) - missed}/{len(muts)} caught" + (" (caller-side list: silence expected)" if expect_missed else ""))
    return 0 if expect_missed else (1 if missed else 0)


SYNTHETIC = '''
from itertools import product
def slices(xs, n):
    ys = xs[::-1]
    zs = xs[1:n]
    ws = xs[-2:]
    s = 0.0
    for y in ys:
        s = 2 * s + y
    for zz in zs:
        s = s + 3 * zz
    for w in ws:
        s = 5 * s - w
    return s
def blocks(x, y):
    rows = [[x, y], [y, x + 1]]
    pairs = product(*[[r[0], r[1]] for r in rows])
    next(pairs)
    acc = 0.0
    for a, b in pairs:
        acc = 2 * acc + (a - b)
    for k, (c, d) in enumerate(rows):
        acc = 3 * acc + (c - 2 * d) * (k + 1)
    return acc
'''


def synthetic():
    """unit test of the second-pass plug-in features that no /repo function exercises yet (xs[::-1], xs[a:b], xs[-k:], a
    comprehension with a subscripted static row, next / for over a product iterator, enumerate over a static list with a nested target): the generated
    definitions against `exec` of the same source on dyadic inputs"""
    import ast
    import random
    import py2coq
    ns = {}
    exec(SYNTHETIC, ns)
    tree = ast.parse(SYNTHETIC)
    spec = {"dom": "Q", "ext": "py2coq_loops"}
    fns = [{"py": "slices", "coq": "slices", "args": [("xs", "list Q"), ("n", "Z")], "ret": "Q", "lists": {"xs": ("xs", "Q")}, "int_names": ["n"]},
           {"py": "blocks", "coq": "blocks", "args": [("x", "Q"), ("y", "Q")], "ret": "Q", "emitter": "py2coq_loops:checked",
            "require_imports": {"product": "itertools"}}]
    defs = "\n".join(py2coq.translate_function(tree, spec, fn) for fn in fns)
    rnd = random.Random(7)
    q, z, L = common.qlit, common.zlit, common.lst
    c1, c2 = [], []
    for _ in range(30):
        xs = [rnd.randint(-16, 16) / 4 for _ in range(rnd.randint(0, 6))]
        n = rnd.randint(-3, 8)
        c1.append(common.tup([L([q(x) for x in xs]), z(n), q(ns["slices"](xs, n))]))
        x, y = rnd.randint(-16, 16) / 4, rnd.randint(-16, 16) / 4
        c2.append(common.tup([q(x), q(y), q(ns["blocks"](x, y))]))
    hdr = ("From Coq Require Import ZArith QArith Qminmax Qabs List Bool.\nFrom RV Require Import Base.QB Base.Corr Proofs.Tie_PyLoops.\n"
           "Import ListNotations.\nOpen Scope Q_scope.\n" + defs + "\nClose Scope Q_scope.\n")
    groups = [("synthetic_slices", "list Q * Z * Q", "fun c => match c with (xs, n, e) => Qeq_bool (slices xs n) e end", c1),
              ("synthetic_blocks", "Q * Q * Q", "fun c => match c with (x, y, e) => Qeq_bool (blocks x y) e end", c2)]
    bad = common.coq_bad_indices("TIE", "synthetic", hdr, groups)
    return {g: (len(c), bad[g]) for (g, _, _, c) in groups}


def main():
    if "--mutations" in sys.argv:
        rc = mutations()
        print("-- audit5a: edits outside what the translator read at 7959957")
        rc = mutations(AUDIT_MUTATIONS) or rc
        print("-- audit5a: caller-side edits (not visible to a translator of the callee)")
        mutations(AUDIT_CALLER_SIDE, expect_missed=True)
        return rc
    if "--table" in sys.argv:
        print("| generated module | source function | equality lemma | hand model | property |\n|---|---|---|---|---|")
        for mod, fun, lem, f, model, prop in TABLE:
            print(f"| `Gen/{mod}.v` | `{fun}` | `Proofs/{f}.v: {lem}` | `{model}` | {prop} |")
        return 0
    t0 = time.time()
    fails = []
    gen = tie_modules()
    missing = sorted({t[0] for t in TABLE} - set(gen))
    if missing:
        fails.append(f"modules of TABLE without a spec: {missing}")
    tie_files = sorted(p.stem for p in (common.COQ / "Proofs").glob("Tie_*.v"))
    print(f"tie_selftest: repo={common.REPO} modules={gen} proofs={tie_files}")
    ok, log = common.regen_and_make([f"Proofs/{f}.vo" for f in tie_files], gen_deps=gen)
    if not ok:
        fails.append("regeneration / build failed:\n" + log[-3500:])
    else:
        names = [(f, lem) for _, _, lem, f, _, _ in TABLE] + EXAMPLES
        text = "From RV Require Import " + " ".join(sorted({f"Proofs.{f}" for f, _ in names})) + ".\n" + \
            "".join(f"Print Assumptions {f}.{lem}.\n" for f, lem in names)
        rc, out = common.coq_eval_file("TIE", "assumptions", text)
        if rc != 0:
            fails.append("a lemma of TABLE is missing:\n" + out[-2000:])
        else:
            chunks = [c for c in re.split(r"(?=^Closed under the global context|^Axioms:)", out, flags=re.M)
                      if c.startswith("Closed") or c.startswith("Axioms:")]
            if len(chunks) != len(names):
                fails.append(f"Print Assumptions: {len(names)} requests, {len(chunks)} answers")
            for (f, lem), c in zip(names, chunks):
                ax = [m.group(1) for line in c.splitlines()[1:] if (m := re.match(r"^([A-Za-z_][\w.']*)", line))]
                alien = [a for a in ax if not a.startswith(common.STDLIB_AXIOM_MODULES)]
                print(f"  {f}.{lem}: " + ("closed under the global context" if not ax else f"axioms {ax}"))
                if alien:
                    fails.append(f"{lem} depends on {alien}")
    if ok:
        try:
            for g, (cnt, bad) in list(spot_check().items()) + list(synthetic().items()):
                print(f"  spot check {g}: {cnt} cases, {len(bad)} disagreement(s)")
                if bad:
                    fails.append(f"generated {g} disagrees with the running Python function on cases {bad[:5]}")
        except Exception as e:  # the implementation raised, or the case file does not compile
            fails.append(f"spot check could not run: {type(e).__name__}: {str(e)[:1500]}")
    mine = [b for b in common.hygiene() if "/Tie_" in b or "/GenTie" in b]
    if mine:
        fails.append(f"hygiene: {mine}")
    dt = time.time() - t0
    if fails:
        for f in fails:
            print("TIE-BROKEN:", f)
        print(f"tie_selftest: FAILED ({len(fails)} problem(s), {dt:.0f}s)")
        return 1
    print(f"tie_selftest: OK  {len(gen)} generated modules, {len(TABLE)} equality lemmas, {len(EXAMPLES)} examples, {dt:.0f}s")
    return 0


if __name__ == "__main__":
    want = common.py_env()
    if os.environ.get("PYTHONHASHSEED") != "0":
        os.execve(sys.executable, [sys.executable, __file__] + sys.argv[1:], want)
    sys.exit(main())

#!/venv/bin/python
"""Self-test of the TIE layer:  /venv/bin/python harness/tie_selftest.py [--table]      (RPYLIB_REPO selects the source tree)

 1. regenerates the GenTie* modules of harness/specs/TIE*.py from $RPYLIB_REPO (default /repo) with py2coq +
    harness/py2coq_loops.py -- a function that left the translatable subset is a failure (fail closed);
 2. rebuilds coq/Proofs/Tie_*.vo (the equality lemmas generated definition = hand model) through the same locked
    regen-and-make the checks use -- a lemma that no longer holds of the regenerated definition is a failure;
 3. re-checks every lemma of TABLE by name (`Print Assumptions`): it must exist and depend on nothing but the Coq kernel
    and standard-library axioms;
 4. runs the hygiene grep on the TIE files;
 5. spot check: the generated definitions against the running Python functions on dyadic inputs (exact, vm_compute).
Exit code 0 = all lemmas hold of the current source; 1 otherwise.  `--table` prints the integration table."""
import importlib
import os
import pkgutil
import re
import sys
import time
from pathlib import Path

HERE = Path(__file__).resolve().parent
sys.path.insert(0, str(HERE))
import common  # noqa: E402

# generated module, source function(s), equality lemma, file of the lemma, hand model, property that should list the module
TABLE = [
    ("GenTieDrift", "rpylib/process/markovchain/markovchain.py: compute_mu_h",
     "gen_compute_mu_h_eq_model", "Tie_Drift", "Model.Drift.compute_mu_h", "C04"),
    ("GenTieChain", "rpylib/distribution/samplingfactory.py: create_q_vector",
     "gen_create_q_vector_eq_model", "Tie_Chain", "Model.Chain.q_vector", "C01 (C04 mean_of_rates, C19)"),
    ("GenTieChain", "rpylib/grid/spatial.py: CTMCGrid.left_point",
     "gen_left_point_eq_model", "Tie_Chain", "Model.Grid.left_point", "C13, C01"),
    ("GenTieChain", "rpylib/grid/spatial.py: CTMCGrid.right_point",
     "gen_right_point_eq_model", "Tie_Chain", "Model.Grid.right_point", "C13, C01"),
    ("GenTieChain", "rpylib/grid/spatial.py: CTMCGrid.middle (float, float)",
     "gen_middle_eq_model", "Tie_Chain", "Model.Grid.amid", "C13, C01, C03"),
    ("GenTieBst", "rpylib/distribution/variate/binarysearchtree.py: BinarySearchTree.sample_with_u (while loop)",
     "gen_sample_with_u_eq_model", "Tie_Bst", "Model.Bst.bst_sample", "C02"),
    ("GenTieBst", "  (same; the fuel K+1 of the generated loop always suffices, the error value -1 is never returned)",
     "gen_sample_with_u_fuel_suffices", "Tie_Bst", "Model.Bst.bst_descend", "C02"),
    ("GenTieCoupling", "rpylib/process/coupling/couplingmarkovchain.py: CouplingSimulation.probability_to_right_jump",
     "gen_probability_to_right_jump_eq_model", "Tie_Coupling", "Model.Coupling1d.prob_right", "C03"),
    ("GenTieCoupling", "rpylib/process/coupling/couplingmarkovchain.py: CouplingSimulation.coupling_state",
     "gen_coupling_state_eq_model", "Tie_Coupling", "Model.Coupling1d.coupling_state", "C03"),
]
EXAMPLES = [("Tie_Drift", "gen_compute_mu_h_runs"), ("Tie_Chain", "gen_create_q_vector_runs"),
            ("Tie_Bst", "gen_sample_with_u_runs"), ("Tie_Coupling", "gen_coupling_state_runs")]


def tie_modules():
    import specs
    mods = []
    for m in sorted(pkgutil.iter_modules(specs.__path__), key=lambda m: m.name):
        if m.name.startswith("TIE"):
            mods.extend(importlib.import_module(f"specs.{m.name}").SPECS)
    return mods


def spot_check(seed=20260930, n=40):
    """step 5: the GENERATED definitions (not the hand models) against the running Python functions on dyadic inputs,
    exact comparison by vm_compute -- guards the reading of Python ints / indices / loops by py2coq_loops itself"""
    import random
    from fractions import Fraction
    import numpy as np
    sys.path.insert(0, str(HERE / "shims"))
    sys.path.insert(0, str(common.REPO))
    from rpylib.grid.spatial import CTMCGrid
    from rpylib.process.markovchain.markovchain import compute_mu_h
    from rpylib.distribution.samplingfactory import create_q_vector
    from rpylib.distribution.variate.binarysearchtree import BinarySearchTree
    from rpylib.process.coupling.couplingmarkovchain import CouplingSimulation
    q, z, L = common.qlit, common.zlit, common.lst
    rnd = random.Random(seed)

    class Nu:  # mass(a, b) = (b - a)/2 + (b^2 - a^2)/4: exact in floats on the dyadic inputs below
        @staticmethod
        def integrate(a, b):
            return (b - a) * 0.5 + (b * b - a * a) * 0.25
    mass_coq = "(fun a b : Q => (b - a) * (1 # 2) + (b * b - a * a) * (1 # 4))%Q"
    mu, qv, cp, bs = [], [], [], []
    for _ in range(n):
        m = rnd.randint(1, 5)
        left = sorted({-rnd.randint(1, 64) / 8 for _ in range(m)})
        right = sorted({rnd.randint(1, 64) / 8 for _ in range(m)})
        axis = np.array(left + [0.0] + right)
        o = len(left)
        grid = CTMCGrid(h=min(right[0], -left[-1]), origin_coordinate=o, axes=[axis])
        ax = L([q(x) for x in axis])
        mu.append(common.tup([ax, z(o), q(Fraction(float(compute_mu_h(Nu, grid, axis, o))))]))
        qv.append(common.tup([ax, z(o), L([q(Fraction(float(x))) for x in create_q_vector(Nu, grid)])]))
        inc = rnd.choice([i for i in range(-o, len(axis) - o) if i != 0])
        p = float(CouplingSimulation.probability_to_right_jump(grid, Nu.integrate, inc))
        cp.append(common.tup([ax, z(o), z(inc), q(Fraction(p))]))
        k = rnd.randint(1, 7)
        w = [rnd.randint(1, 8) for _ in range(k + 1)]
        tot = sum(w)
        probs = np.array([Fraction(x, 1) / tot for x in w], dtype=float) if tot in (8, 16, 32) else np.array([1.0 / (k + 1)] * (k + 1))
        tree = BinarySearchTree(probs, states=lambda i: i)
        u = rnd.randint(0, 1023) / 1024
        bs.append(common.tup([z(tree.K), L([q(Fraction(float(x))) for x in tree.bst]), q(u), z(int(tree.sample_with_u(u)))]))
    hdr = ("From Coq Require Import ZArith QArith Qabs List Bool.\nFrom RV Require Import Base.QB Base.Corr Proofs.Tie_PyLoops "
           "Gen.GenTieDrift Gen.GenTieChain Gen.GenTieBst Gen.GenTieCoupling.\n")
    groups = [
        ("mu_h", "list Q * Z * Q", f"fun c => match c with (xs, o, e) => Qeq_bool (GenTieDrift.compute_mu_h {mass_coq} GenTieChain.middle xs o) e end", mu),
        ("q_vector", "list Q * Z * list Q", f"fun c => match c with (xs, o, e) => qlist_eqb (GenTieChain.create_q_vector {mass_coq} GenTieChain.middle xs o) e end", qv),
        ("prob_right", "list Q * Z * Z * Q", f"fun c => match c with (xs, o, i, e) => Qle_bool (Qabs (GenTieCoupling.probability_to_right_jump {mass_coq} GenTieChain.middle xs o i - e)) (1 # 1125899906842624) end", cp),   # one float division: 2^-50
        ("bst", "Z * list Q * Q * Z", "fun c => match c with (k, t, u, e) => Z.eqb (GenTieBst.sample_with_u k t u) e end", bs),
    ]
    bad = common.coq_bad_indices("TIE", "spot", hdr, groups)
    return {g: (len(c), bad[g]) for (g, _, _, c) in groups}


def main():
    if "--table" in sys.argv:
        print("| generated module | source function | equality lemma | hand model | property |\n|---|---|---|---|---|")
        for mod, fun, lem, f, model, prop in TABLE:
            print(f"| `Gen/{mod}.v` | `{fun}` | `Proofs/{f}.v: {lem}` | `{model}` | {prop} |")
        return 0
    t0 = time.time()
    fails = []
    gen = tie_modules()
    missing = sorted({t[0] for t in TABLE} - set(gen))
    if missing:
        fails.append(f"modules of TABLE without a spec: {missing}")
    tie_files = sorted(p.stem for p in (common.COQ / "Proofs").glob("Tie_*.v"))
    print(f"tie_selftest: repo={common.REPO} modules={gen} proofs={tie_files}")
    ok, log = common.regen_and_make([f"Proofs/{f}.vo" for f in tie_files], gen_deps=gen)
    if not ok:
        fails.append("regeneration / build failed:\n" + log[-3500:])
    else:
        names = [(f, lem) for _, _, lem, f, _, _ in TABLE] + EXAMPLES
        text = "From RV Require Import " + " ".join(sorted({f"Proofs.{f}" for f, _ in names})) + ".\n" + \
            "".join(f"Print Assumptions {f}.{lem}.\n" for f, lem in names)
        rc, out = common.coq_eval_file("TIE", "assumptions", text)
        if rc != 0:
            fails.append("a lemma of TABLE is missing:\n" + out[-2000:])
        else:
            chunks = [c for c in re.split(r"(?=^Closed under the global context|^Axioms:)", out, flags=re.M)
                      if c.startswith("Closed") or c.startswith("Axioms:")]
            if len(chunks) != len(names):
                fails.append(f"Print Assumptions: {len(names)} requests, {len(chunks)} answers")
            for (f, lem), c in zip(names, chunks):
                ax = [m.group(1) for line in c.splitlines()[1:] if (m := re.match(r"^([A-Za-z_][\w.']*)", line))]
                alien = [a for a in ax if not a.startswith(common.STDLIB_AXIOM_MODULES)]
                print(f"  {f}.{lem}: " + ("closed under the global context" if not ax else f"axioms {ax}"))
                if alien:
                    fails.append(f"{lem} depends on {alien}")
    if ok:
        try:
            for g, (cnt, bad) in spot_check().items():
                print(f"  spot check {g}: {cnt} cases, {len(bad)} disagreement(s)")
                if bad:
                    fails.append(f"generated {g} disagrees with the running Python function on cases {bad[:5]}")
        except Exception as e:  # the implementation raised, or the case file does not compile
            fails.append(f"spot check could not run: {type(e).__name__}: {str(e)[:1500]}")
    mine = [b for b in common.hygiene() if "/Tie_" in b or "/GenTie" in b]
    if mine:
        fails.append(f"hygiene: {mine}")
    dt = time.time() - t0
    if fails:
        for f in fails:
            print("TIE-BROKEN:", f)
        print(f"tie_selftest: FAILED ({len(fails)} problem(s), {dt:.0f}s)")
        return 1
    print(f"tie_selftest: OK  {len(gen)} generated modules, {len(TABLE)} equality lemmas, {len(EXAMPLES)} examples, {dt:.0f}s")
    return 0


if __name__ == "__main__":
    want = common.py_env()
    if os.environ.get("PYTHONHASHSEED") != "0":
        os.execve(sys.executable, [sys.executable, __file__] + sys.argv[1:], want)
    sys.exit(main())

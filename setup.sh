#!/bin/sh
# MANIFEST.setup_cmd: offline build of the whole Coq development from files on disk.
# A file that does not compile does not stop the build (make -k): every check re-runs make for its own
# target and reports a broken obligation itself, so one broken proof cannot mask the other properties.
cd "$(dirname "$0")" || exit 1
mkdir -p build evidence replays coq/Gen
PYTHONPATH=/repo:$PWD/harness/shims:$PWD/harness SYMPY_GROUND_TYPES=python PYTHONHASHSEED=0 /venv/bin/python harness/py2coq.py /repo || exit 1
/venv/bin/python tools/mkproject.py || exit 1
if timeout 3300 make -k -C coq -j16 > build/setup_make.log 2>&1; then
  echo "setup: coq build ok"; tail -2 build/setup_make.log
else
  echo "setup: coq build had errors (checks will report them per property):"; grep -B2 -A8 "^Error" build/setup_make.log | tail -40
fi
exit 0

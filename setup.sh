#!/bin/sh
# MANIFEST.setup_cmd: offline build of the whole Coq development from files on disk.
set -e
cd "$(dirname "$0")"
mkdir -p build evidence replays coq/Gen
PYTHONPATH=/repo:$PWD/harness/shims:$PWD/harness SYMPY_GROUND_TYPES=python PYTHONHASHSEED=0 /venv/bin/python harness/py2coq.py /repo
/venv/bin/python tools/mkproject.py
timeout 3000 make -C coq -j16 > build/setup_make.log 2>&1 || { tail -60 build/setup_make.log; exit 1; }
tail -3 build/setup_make.log

#!/venv/bin/python
"""Rewrites the block between <!-- FINDINGS:BEGIN --> and <!-- FINDINGS:END --> in DESIGN.md from KNOWN_FINDINGS.json."""
import json
import re
from pathlib import Path

V = Path(__file__).resolve().parent.parent
d = json.loads((V / "KNOWN_FINDINGS.json").read_text())["findings"]
rows = []
for k in sorted(d, key=lambda k: (k["property"], k["id"])):
    what = re.sub(r"^fixed: property=\S+ \S+ ", "", k["what"]).replace("|", "/")
    what = re.sub(r"\s+", " ", what)[:330]
    st = f"fixed by `{k['commit']}`" if k["status"] == "fixed" else "**known** (recorded, replayed on every run)"
    rows.append(f"| {k['id']} | {k['property']} | {what} | {st} |")
n_fixed = sum(1 for k in d if k["status"] == "fixed")
table = (f"{len(d)} findings: {n_fixed} repaired by `fix:` commits in /repo, {len(d) - n_fixed} recorded as known.\n\n"
         "| id | property | what failed on the tree as found | status |\n|---|---|---|---|\n" + "\n".join(rows))
p = V / "DESIGN.md"
s = p.read_text()
s = re.sub(r"<!-- FINDINGS:BEGIN -->.*<!-- FINDINGS:END -->", "<!-- FINDINGS:BEGIN -->\n" + table + "\n<!-- FINDINGS:END -->", s, flags=re.S)
p.write_text(s)
print(len(d), "findings")

#!/venv/bin/python
"""Builds MANIFEST.json from the property modules in harness/props (one per claimed property)."""
import importlib
import json
import sys
from pathlib import Path

V = Path(__file__).resolve().parent.parent
sys.path.insert(0, str(V / "harness"))
ids = [json.loads(l)["id"] for l in (V / "properties.jsonl").read_text().splitlines() if l.strip()]
NA_REASONS = json.loads((V / "tools" / "not_applicable.json").read_text())
CLAIMED = set(json.loads((V / "tools" / "claimed.json").read_text()))   # properties whose check is finished and green on /repo
checks, na = [], []
for pid in ids:
    f = V / "harness" / "props" / f"{pid}.py"
    if not f.exists() or pid not in CLAIMED:
        na.append({"property_id": pid, "reason": NA_REASONS.get(pid, "check still under construction at this commit (plan: DESIGN.md section 3); not claimed until it is green on the unchanged tree")})
        continue
    m = importlib.import_module(f"props.{pid}")
    checks.append({
        "property_id": pid,
        "quick_cmd": f"./check {pid} --tier quick",
        "thorough_cmd": f"./check {pid} --tier thorough",
        "evidence_file": f"/verif/evidence/{pid}.json",
        "replay_cmd_template": f"./check {pid} --replay {{path}}",
        "engine": "coq-proof+correspondence",
        "level_claimed": {"category": "proof", "text": m.LEVEL_TEXT, "design_ref": getattr(m, "DESIGN_REF", f"DESIGN.md section 3, {pid}")},
        "level_note": m.LEVEL_NOTE,
        "technique": m.TECHNIQUE,
    })
man = {
    "version": 1,
    "setup_cmd": "./setup.sh",
    "hooks": {
        "guard": "RPYLIB_VERIF",
        "enable": "checks export RPYLIB_VERIF=1; no hook was needed in /repo (all observation is by subclassing / monkey-patching from the harness)",
        "baseline_off_cmd": "cd /repo && /venv/bin/python -m pytest -ra -q -p no:cacheprovider --timeout=900 --continue-on-collection-errors",
        "source_commits": [],
        "add_only": True,
    },
    "engines": [{
        "name": "coq-proof+correspondence", "path": "/verif/check",
        "serves_properties": [c["property_id"] for c in checks],
        "kind_free_text": "Coq 8.16.1 theorems about (a) Gallina definitions regenerated from /repo by harness/py2coq.py on every run and (b) hand-written executable models tied to /repo by a vm_compute correspondence check; an implementation-only oracle searches for a failing input when either breaks",
    }],
    "checks": checks,
    "not_applicable": na,
    "notes": "All checks run as ./check Cxx from /verif; they serialise their Coq rebuild through build/.lock, so they may be started concurrently. Known findings: KNOWN_FINDINGS.json.",
}
(V / "MANIFEST.json").write_text(json.dumps(man, indent=1) + "\n")
print(f"MANIFEST.json: {len(checks)} checks, {len(na)} not_applicable")

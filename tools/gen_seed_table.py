#!/venv/bin/python
"""Rewrites the block between <!-- SEEDS:BEGIN --> and <!-- SEEDS:END --> in DESIGN.md from seeded/*/meta.json."""
import json
import re
from pathlib import Path

V = Path(__file__).resolve().parent.parent
rows = []
for d in sorted((V / "seeded").iterdir()):
    m = d / "meta.json"
    if not m.exists():
        continue
    j = json.loads(m.read_text())
    need = (j.get("summary") or (j.get("needs_to_manifest") or "").strip().splitlines()[0] if (j.get("summary") or j.get("needs_to_manifest")) else "")
    need = re.sub(r"\s+", " ", need)[:260].replace("|", "/")
    det = ", ".join(j.get("detected_by") or []) or "**missed**"
    note = j.get("note", "")
    rows.append(f"| {j['seed_id']} | {j['property']} | {need} | {det} | {note} |")
table = ("| seeded change | breaks | what it is / what it needs to manifest | caught by (quick tier) | note |\n|---|---|---|---|---|\n" + "\n".join(rows))
p = V / "DESIGN.md"
s = p.read_text()
s = re.sub(r"<!-- SEEDS:BEGIN -->.*<!-- SEEDS:END -->", "<!-- SEEDS:BEGIN -->\n" + table + "\n<!-- SEEDS:END -->", s, flags=re.S)
p.write_text(s)
print(len(rows), "seeded changes")

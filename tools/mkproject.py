#!/venv/bin/python
"""Writes coq/_CoqProject from the directory content and (re)creates coq/Makefile when the file list changes."""
import subprocess
from pathlib import Path

COQ = Path(__file__).resolve().parent.parent / "coq"
files = sorted(str(p.relative_to(COQ)) for d in ("Base", "Gen", "Model", "Proofs", "Properties") for p in (COQ / d).glob("*.v"))
text = "-Q . RV\n-arg -w -arg -notation-overridden,-deprecated-hint-without-locality,-deprecated-instance-without-locality,-ambiguous-paths,-deprecated-syntactic-definition,-deprecated\n" + "\n".join(files) + "\n"
cp = COQ / "_CoqProject"
if not cp.exists() or cp.read_text() != text or not (COQ / "Makefile").exists():
    cp.write_text(text)
    subprocess.run(["coq_makefile", "-f", "_CoqProject", "-o", "Makefile"], cwd=COQ, check=True, capture_output=True)

#!/bin/sh
# Runs the quick (or $1=thorough) tier of every claimed check, 4 at a time, and prints the summary lines.
cd "$(dirname "$0")/.." || exit 1
TIER=${1:-quick}
mkdir -p build/run_all
/venv/bin/python -c "import json;print(' '.join(json.load(open('tools/claimed.json'))))" | tr ' ' '\n' | \
  xargs -P 4 -I{} sh -c "./check {} --tier $TIER > build/run_all/{}.log 2>&1; echo \"{} rc=\$?\""
for f in build/run_all/*.log; do grep -h '^\[C\|^VIOLATION' "$f" | cut -c1-220; done

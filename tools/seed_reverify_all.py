#!/venv/bin/python
"""Re-verify every seeded change against the COMMITTED /verif, in N isolated snapshot copies (so that checks of different
patched trees never share coq/Gen or build/), and copy the refreshed meta.json files back into /verif/seeded.

usage: tools/seed_reverify_all.py [-n 4] [--only C01,C02] [--root /root/verif_rv]

Each copy is a `git worktree` of /verif's HEAD with its own full Coq build (the first is built by ./setup.sh, the others
are `cp -a` clones of it).  Seeds are distributed round-robin over the copies; one copy runs its seeds sequentially.
Nothing here writes evidence/: runs against a tree other than /repo write build/evidence_other_trees/ (see common.py).
"""
import json
import shutil
import subprocess
import sys
import time
from concurrent.futures import ThreadPoolExecutor
from pathlib import Path

V = Path(__file__).resolve().parent.parent


def sh(cmd, **kw):
    return subprocess.run(cmd, shell=True, capture_output=True, text=True, **kw)


def main():
    n = int(sys.argv[sys.argv.index("-n") + 1]) if "-n" in sys.argv else 4
    only = set(sys.argv[sys.argv.index("--only") + 1].split(",")) if "--only" in sys.argv else None
    root = Path(sys.argv[sys.argv.index("--root") + 1]) if "--root" in sys.argv else Path("/root/verif_rv")
    seeds = sorted(d.name for d in (V / "seeded").iterdir() if (d / "patch.diff").exists())
    if only:
        seeds = [s for s in seeds if s.split("_")[0] in only or s in only]
    copies = [Path(f"{root}{i}") for i in range(n)]
    for c in copies:
        sh(f"git -C {V} worktree remove --force {c}")
        shutil.rmtree(c, ignore_errors=True)
    r = sh(f"git -C {V} worktree add --detach {copies[0]} HEAD")
    assert r.returncode == 0, r.stderr
    t0 = time.time()
    r = sh("./setup.sh", cwd=copies[0])
    print("setup:", r.stdout.strip().splitlines()[-1] if r.stdout.strip() else r.stderr[-300:], f"({time.time()-t0:.0f}s)", flush=True)
    for c in copies[1:]:
        sh(f"cp -a {copies[0]} {c}")
        # a plain copy of a worktree shares its .git file; checks never call git inside /verif, so this is harmless
    buckets = [seeds[i::n] for i in range(n)]

    def run(i):
        out = []
        for sid in buckets[i]:
            prop = sid.split("_")[0]
            src = copies[i] / "build" / "seedsrc" / sid      # outside seeded/: seed_verify copies the files back into seeded/<sid>
            shutil.rmtree(src, ignore_errors=True)
            src.parent.mkdir(parents=True, exist_ok=True)
            shutil.copytree(copies[i] / "seeded" / sid, src)
            p = sh(f"tools/seed_verify.py {src} {prop} {sid}", cwd=copies[i])
            try:
                j = json.loads(p.stdout[p.stdout.index("{"):])
                ok = bool(j.get("confirmed")) and prop in (j.get("detected_by") or [])
                line = f"{sid} confirmed={j.get('confirmed')} applies={j.get('patch_applies')} detected_by={j.get('detected_by')}"
            except Exception:
                ok, line = False, f"{sid} PARSE-FAIL {p.stdout[-300:]} {p.stderr[-300:]}"
            print(("ok   " if ok else "MISS ") + line, flush=True)
            m = copies[i] / "seeded" / sid / "meta.json"
            if m.exists():
                shutil.copy(m, V / "seeded" / sid / "meta.json")
            out.append((sid, ok))
        return out

    with ThreadPoolExecutor(n) as ex:
        res = [x for part in ex.map(run, range(n)) for x in part]
    miss = [s for s, ok in res if not ok]
    print(f"{len(res)} seeds re-verified, {len(res)-len(miss)} caught, missed/unconfirmed: {miss}")
    for c in copies:
        sh(f"git -C {V} worktree remove --force {c}")
        shutil.rmtree(c, ignore_errors=True)
    sh(f"git -C {V} worktree prune")
    return 1 if miss else 0


if __name__ == "__main__":
    sys.exit(main())

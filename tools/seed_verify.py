#!/venv/bin/python
"""Confirm a seeded breaking change and run the property's check against it.

usage: tools/seed_verify.py <source dir with patch.diff + demo*.py + REPORT.md> <property id> <seed id> [--tier quick]

Steps (all in a scratch worktree of /repo HEAD under /tmp, removed afterwards):
  1. demo on the clean tree must exit 0        2. patch applies; demo must exit non-zero
  3. baseline test-suite still reports 37 passed   4. ./check <prop> against the patched tree: expect exit 1 + VIOLATION
Writes /verif/seeded/<seed id>/{patch.diff, demo.py, REPORT.md, meta.json}.
"""
import json
import os
import re
import shutil
import subprocess
import sys
import time
from pathlib import Path

V = Path(__file__).resolve().parent.parent


def sh(cmd, cwd=None, env=None, timeout=3600):
    p = subprocess.run(cmd, shell=True, cwd=cwd, env=env, capture_output=True, text=True, timeout=timeout)
    return p.returncode, p.stdout + p.stderr


def main():
    src, prop, sid = Path(sys.argv[1]).resolve(), sys.argv[2], sys.argv[3]
    tier = "quick"
    if "--tier" in sys.argv:
        tier = sys.argv[sys.argv.index("--tier") + 1]
    also = []
    if "--also" in sys.argv:
        also = sys.argv[sys.argv.index("--also") + 1].split(",")
    patch = src / "patch.diff"
    demos = sorted(src.glob("demo*.py"))
    assert patch.exists() and demos, "need patch.diff and demo*.py"
    demo = demos[0]
    wt = Path(f"/tmp/seedchk_{sid}")
    sh(f"git -C /repo worktree remove --force {wt}")
    rc, out = sh(f"git -C /repo worktree add --detach {wt} HEAD")
    assert rc == 0, out
    meta = {"seed_id": sid, "property": prop, "source": str(src), "repo_head": sh("git -C /repo rev-parse HEAD")[1].strip()}
    try:
        env = dict(os.environ, PYTHONPATH=f"{wt}:{V}/harness/shims", SYMPY_GROUND_TYPES="python", PYTHONHASHSEED="0")
        shutil.copy(demo, wt / "demo_seed.py")
        rc0, out0 = sh("/venv/bin/python demo_seed.py", cwd=wt, env=env, timeout=1800)
        meta["demo_clean_rc"] = rc0
        rca, outa = sh(f"git apply {patch}", cwd=wt)
        meta["patch_applies"] = rca == 0
        if rca != 0:
            meta["apply_error"] = outa[-800:]
            print(json.dumps(meta, indent=1))
            return 2
        rc1, out1 = sh("/venv/bin/python demo_seed.py", cwd=wt, env=env, timeout=1800)
        meta["demo_patched_rc"] = rc1
        meta["demo_patched_tail"] = out1[-600:]
        rct, outt = sh("/venv/bin/python -m pytest -q -p no:cacheprovider --timeout=900 --continue-on-collection-errors 2>&1 | tail -3", cwd=wt, timeout=3000)
        m = re.search(r"(\d+) passed", outt)
        meta["tests_passed"] = int(m.group(1)) if m else None
        meta["checks"] = {}
        for p in [prop] + also:
            t0 = time.time()
            rcc, outc = sh(f"./check {p} --tier {tier}", cwd=V, env=dict(os.environ, RPYLIB_REPO=str(wt)), timeout=7200)
            lines = [l for l in outc.splitlines() if l.startswith("VIOLATION") or l.startswith("KNOWN-FINDING") or l.startswith("[")]
            meta["checks"][p] = {"rc": rcc, "wall_s": round(time.time() - t0, 1), "lines": lines[:12]}
            # keep the first replay for the record
            for l in lines:
                mm = re.search(r"replay=(\S+)", l)
                if mm and Path(mm.group(1)).exists():
                    meta["checks"][p]["replay_excerpt"] = Path(mm.group(1)).read_text()[:1500]
                    break
        meta["detected_by"] = [p for p, r in meta["checks"].items() if r["rc"] == 1 and any(l.startswith("VIOLATION") for l in r["lines"])]
        meta["confirmed"] = (rc0 == 0 and rc1 != 0 and meta["tests_passed"] == 37)
    finally:
        sh(f"git -C /repo worktree remove --force {wt}")
    rep = src / "REPORT.md"
    if rep.exists():
        meta["needs_to_manifest"] = rep.read_text()[:2500]
    meta["ran"] = ["demo on clean HEAD worktree", "git apply patch.diff", "demo on patched worktree", "pytest baseline", f"RPYLIB_REPO=<patched> ./check {prop} --tier {tier}"]
    if meta["confirmed"]:
        d = V / "seeded" / sid
        d.mkdir(parents=True, exist_ok=True)
        shutil.copy(patch, d / "patch.diff")
        shutil.copy(demo, d / "demo.py")
        if rep.exists():
            shutil.copy(rep, d / "REPORT.md")
        old = d / "meta.json"
        if old.exists():      # keep the hand-written annotations of an earlier verification
            try:
                prev = json.loads(old.read_text())
                for k in ("summary", "note"):
                    if k in prev and k not in meta:
                        meta[k] = prev[k]
            except Exception:
                pass
        (d / "meta.json").write_text(json.dumps(meta, indent=1))
    slim = {k: v for k, v in meta.items() if k != "needs_to_manifest"}
    for c in slim.get("checks", {}).values():
        c.pop("replay_excerpt", None)
    print(json.dumps(slim, indent=1)[:6000])
    return 0


if __name__ == "__main__":
    sys.exit(main())
